#!/bin/bash
# Runs every claimed property's quick (or given) tier and records verdict + wall time. usage: tools_regress.sh [tier] [ids...]
tier=${1:-quick}; shift
ids=${@:-$(python3 -c "import json;print(' '.join(c['property_id'] for c in json.load(open('/verif/MANIFEST.json'))['checks']))")}
mkdir -p /verif/out
log=/verif/out/regress-$tier.log
: > $log
for id in $ids; do
  t0=$(date +%s)
  /verif/bin/gosmt check $id --tier $tier > /verif/out/regress-$id-$tier.txt 2>&1; rc=$?
  t1=$(date +%s)
  echo "$id exit=$rc secs=$((t1-t0)) $(grep -c '^VIOLATION' /verif/out/regress-$id-$tier.txt) violations $(grep -c '^KNOWN-FINDING' /verif/out/regress-$id-$tier.txt) known" | tee -a $log
done
