#!/usr/bin/env python3
"""Regenerates MANIFEST.json from manifest_src.json (per-property texts) + the obligations found in harness/."""
import json, subprocess, sys, os
src = json.load(open('/verif/manifest_src.json'))
props = [json.loads(l)['id'] for l in open('/verif/properties.jsonl')]
checks = []
na = []
for pid in props:
    e = src['properties'].get(pid, {})
    if e.get('claimed'):
        checks.append({
            "property_id": pid,
            "quick_cmd": f"/verif/bin/gosmt check {pid} --tier quick",
            "thorough_cmd": f"/verif/bin/gosmt check {pid} --tier thorough",
            "evidence_file": f"/verif/evidence/{pid}.json",
            "replay_cmd_template": "/verif/bin/gosmt replay {path}",
            "engine": "gosmt",
            "level_claimed": {"category": "other", "text": e['level_text'], "design_ref": e.get('design_ref', 'DESIGN.md §5')},
            "level_note": e['level_note'],
            "technique": e.get('technique', src['default_technique']),
        })
    else:
        na.append({"property_id": pid, "reason": e.get('reason', 'no solver-based check built yet for this property')})
m = {
    "version": 1,
    "setup_cmd": src['setup_cmd'],
    "hooks": src['hooks'],
    "engines": src['engines'],
    "checks": checks,
    "not_applicable": na,
    "notes": src['notes'],
}
json.dump(m, open('/verif/MANIFEST.json', 'w'), indent=1)
print("checks:", [c['property_id'] for c in checks])
