package config

import (
	"math"
	"time"

)

//verif:override pow math.Pow vPowBounded
// math.Pow(x, 0.33) is an uninterpreted function under the engine, constrained by a bracketing
// contract computed from the real math.Pow at the (constant) points where round(n^0.33)
// changes: for integer-valued x in [0, 29000], x >= n_k => r >= Pow(n_k) and
// x <= n_k-1 => r <= Pow(n_k-1). Assumes the real math.Pow(., 0.33) is monotone on these points.
func vPowBounded(x, y float64) float64 {
	r := math.Pow(x, y)
	if !vSymbolic() {
		return r
	}
	vAssume(y == 0.33)
	c := r >= 0 && r <= 30.25
	for k := 1; k <= 30; k++ {
		lo, hi := 0, 29001 // smallest n with round(n^0.33) >= k
		for lo < hi {
			mid := (lo + hi) / 2
			if math.Round(math.Pow(float64(mid), 0.33)) >= float64(k) {
				hi = mid
			} else {
				lo = mid + 1
			}
		}
		if lo > 29000 {
			break
		}
		c = vAnd(c, vImplies(x >= float64(lo), r >= math.Pow(float64(lo), 0.33)))
		c = vAnd(c, vImplies(x <= float64(lo-1), r <= math.Pow(float64(lo-1), 0.33)))
	}
	vAssume(c)
	return r
}

// vNextValidationUnix is the computation of applyNewEpoch (blockchain.go):
//   validationTime := time.Unix(global.NextValidationTime, 0)      // StateDB.NextValidationTime
//   next := cfg.GetNextValidationTime(validationTime, networkSize, upgrade12)
//   global.NextValidationTime = next.Unix()                         // SetNextValidationTime
// evaluated on a host whose local zone has the given UTC offset.
func vNextValidationUnix(zoneOffsetSec int, stored int64, networkSize int, up12 bool) int64 {
	time.Local = time.FixedZone("verifzone", zoneOffsetSec)
	cfg := &ValidationConfig{}
	validationTime := time.Unix(stored, 0)
	return cfg.GetNextValidationTime(validationTime, networkSize, up12).Unix()
}

//verif:obligation C01.e tier=quick use=pow bounds=unix-time-in-[0,2^33),network-size-in-[0,29000],zone-offsets-multiples-of-15min-in-[-12h,+14h] covers=up12,legacy
// Self-composition over the host time zone: Global.NextValidationTime computed by the real
// GetNextValidationTime/NormalizedEpochDuration (time package executed from std source,
// math.Pow as an uninterpreted function) must be identical on two hosts whose local zones
// differ. The zone is the only node-local input.
func H_C01e() {
	stored := vI64("storedNextValidationTime")
	vAssume(stored >= 0 && stored < 1<<33)
	n := vInt("networkSize")
	vAssume(n >= 0 && n <= 29000)
	up12 := vBool("upgrade12")
	k1, k2 := vI32("zoneQuarterHours1"), vI32("zoneQuarterHours2")
	vAssume(k1 >= -48 && k1 <= 56 && k2 >= -48 && k2 <= 56)
	r1 := vNextValidationUnix(int(k1)*900, stored, n, up12)
	r2 := vNextValidationUnix(int(k2)*900, stored, n, up12)
	if up12 {
		vCover("up12")
	} else {
		vCover("legacy")
	}
	vAssert(r1 == r2, "next validation time is independent of the host time zone")
	vCover("end")
}
