package pushpull

import (
	"time"

	"github.com/idena-network/idena-go/common"
	"github.com/libp2p/go-libp2p-core/peer"
)

// ---- environment: a harness clock and a holder with fixed content ----

var vClock int64 // nanoseconds since vBase

var vBase = time.Unix(1700000000, 0)

//verif:override clock time.Now vC20Now
func vC20Now() time.Time { return vBase.Add(time.Duration(vClock)) }

//verif:override clock time.Sleep vC20Sleep
//verif:callsite clock common/pushpull/tracker.go time.Sleep vC20Sleep
//verif:callsite clock common/pushpull/tracker.go time.Now vC20Now
func vC20Sleep(d time.Duration) {
	vSleeps++
	if vSleepCut > 0 && vSleeps > vSleepCut {
		panic(vCut{}) // cuts the tracker's idle loop
	}
	if d > 0 {
		vClock += int64(d)
	}
	// a scheduling point: whatever another goroutine does while the loop sleeps (the loop holds no lock here)
	if vDuringSleep != nil && d > 10*time.Millisecond {
		f := vDuringSleep
		vDuringSleep = nil
		f()
	}
}

var vDuringSleep func()

var vSleeps, vSleepCut int

type vCut struct{}

type vHolder struct {
	held     map[common.Hash128]bool
	hasCalls int
	cutAfter int
}

func (h *vHolder) Add(hash common.Hash128, entry interface{}, shardId common.ShardId, highPriority bool) {
}
func (h *vHolder) Has(hash common.Hash128) bool {
	h.hasCalls++
	if h.cutAfter > 0 && h.hasCalls > h.cutAfter {
		panic(vCut{}) // cuts the tracker's infinite loop after a bounded number of iterations
	}
	return h.held[hash]
}
func (h *vHolder) Get(hash common.Hash128) (interface{}, common.ShardId, bool, bool) {
	return nil, 0, false, false
}
func (h *vHolder) MaxParallelPulls() uint32         { return 3 }
func (h *vHolder) SupportPendingRequests() bool     { return true }
func (h *vHolder) PushTracker() PendingPushTracker  { return nil }

func vHash(b byte) common.Hash128 {
	var h common.Hash128
	h[0] = b
	return h
}

func vSorted(l []pendingRequestTime) bool {
	for i := 1; i < len(l); i++ {
		if l[i-1].time.After(l[i].time) {
			return false
		}
	}
	return true
}

// Instants are drawn from a small set of representatives (64-bit "seconds * 1e9 / 1e9" arithmetic of
// time.Add/Sub with a symbolic operand is beyond every solver here, DESIGN §2): for the ordering logic
// four distinct instants realise every order of up to three entries incl. ties; for the delay logic the
// gaps straddle the pull delay (below, just below, exactly, above).
func vTimeAt(name string) time.Time {
	return vBase.Add(time.Duration(vChoice(name, 4)) * time.Second)
}

func vGap(name string) int64 {
	return []int64{0, int64(10*time.Second) - 1, int64(10 * time.Second)}[vChoice(name, 3)]
}

//verif:obligation C20.a tier=quick use=clock bounds=list-of-<=3-entries,times-from-4-representative-instants(all-orders-incl-ties) covers=add,remove,move
// sortedPendingPushes.Add / Remove / MoveWithNewTime (real code incl. sort.Search and Time.After): the
// list stays sorted by time, Add inserts exactly the element, Remove(i) removes exactly element i,
// no index panic.
func H_C20a() {
	s := newSortedPendingPushes()
	n := vChoice("len", 4)
	for i := 0; i < n; i++ {
		s.Add(pendingRequestTime{PendingPulls{Id: peer.ID("p"), Hash: vHash(byte(i + 1))}, vTimeAt("t")})
		vAssert(vSorted(s.list) && len(s.list) == i+1, "Add keeps the list sorted and grows it by one")
	}
	vCover("add")
	if n > 0 {
		i := vChoice("idx", n)
		before := append([]pendingRequestTime{}, s.list...)
		if vBool("move") {
			vCover("move")
			nt := vTimeAt("newTime")
			s.MoveWithNewTime(i, nt)
			vAssert(vSorted(s.list) && len(s.list) == n, "MoveWithNewTime keeps the list sorted and its length")
			found := 0
			for _, e := range s.list {
				if e.req.Hash == before[i].req.Hash {
					found++
					vAssert(e.time.Equal(nt), "the moved entry carries the new time")
				}
			}
			vAssert(found == 1, "the moved entry is present exactly once")
		} else {
			vCover("remove")
			s.Remove(i)
			vAssert(vSorted(s.list) && len(s.list) == n-1, "Remove keeps the list sorted and shrinks it by one")
			for _, e := range s.list {
				vAssert(e.req.Hash != before[i].req.Hash, "the removed entry is gone")
			}
		}
	}
	vCover("end")
}

//verif:obligation C20.b tier=quick use=clock bounds=2-hashes,held-or-not,pull-active-or-not covers=recorded,ignoredHeld,ignoredNoPull
// AddPendingPush (real code): an announcement of an item the node already holds is ignored; one for which
// no pull is active is ignored; otherwise exactly one pending entry with the time of the active pull.
func H_C20b() {
	d := NewDefaultPushTracker(10 * time.Second)
	h := &vHolder{held: map[common.Hash128]bool{}}
	d.SetHolder(h)
	h1 := vHash(1)
	held, active := vBool("held"), vBool("pullActive")
	h.held[h1] = held
	vClock = vGap("now")
	if active {
		d.RegisterPull(h1)
	}
	pullTime := vC20Now()
	vClock += vGap("later")
	d.AddPendingPush(peer.ID("p2"), h1)
	switch {
	case held:
		vCover("ignoredHeld")
		vAssert(d.pendingPushes.Len() == 0, "announcement of a known item is ignored")
	case !active:
		vCover("ignoredNoPull")
		vAssert(d.pendingPushes.Len() == 0, "announcement without an active pull is not queued")
	default:
		vCover("recorded")
		vAssert(d.pendingPushes.Len() == 1, "announcement of a missing, already requested item is queued once")
		e := d.pendingPushes.Peek(0)
		vAssert(e.req.Hash == h1 && e.req.Id == peer.ID("p2") && e.time.Equal(pullTime), "the queued entry names the announcer and carries the time of the last pull")
	}
	vCover("end")
}

//verif:obligation C20.c tier=quick use=clock bounds=2-hashes,<=2-pending-announcers,2-loop-iterations(cut),pull-delay-10s,gaps-from-{0,10s-1ns,10s} covers=requested,droppedHeld,requeued
// loop() (real code, cut after two holder look-ups): a request for hash h is emitted only if the item is
// not held, a pull for h is active and at least pullDelay passed since that pull; the emission refreshes the
// pull time; an item that arrived is dropped, an entry whose pull was refreshed is re-queued not dropped.
func H_C20c() {
	delay := 10 * time.Second
	d := NewDefaultPushTracker(delay)
	h := &vHolder{held: map[common.Hash128]bool{}}
	d.SetHolder(h)
	hs := []common.Hash128{vHash(1), vHash(2)}
	var pull [2]time.Time
	var active [2]bool
	vClock = 0
	gap := vGap("gap") // one representative gap between consecutive events
	for i := range hs {
		h.held[hs[i]] = vBool("held")
		active[i] = vBool("pullActive")
		vClock += gap
		if active[i] {
			d.RegisterPull(hs[i])
			pull[i] = vC20Now()
		}
	}
	// announcements from further peers while the first pull is outstanding
	n := vChoice("announcements", 3)
	for k := 0; k < n; k++ {
		which := vChoice("announced", 2)
		vClock += gap
		wasHeld := h.held[hs[which]]
		h.held[hs[which]] = false // not yet arrived when announced
		d.AddPendingPush(peer.ID("q"), hs[which])
		h.held[hs[which]] = wasHeld
	}
	// a pull may have been refreshed meanwhile (another announcer was asked)
	if active[0] && vBool("refreshed") {
		vClock += vGap("refreshGap")
		d.RegisterPull(hs[0])
		pull[0] = vC20Now()
		vCover("requeued")
	}
	pending := d.pendingPushes.Len()
	h.hasCalls, h.cutAfter = 0, 2
	vSleeps, vSleepCut = 0, 3
	cut := vPanics(func() { d.loop() })
	vAssert(cut, "the loop only stops at the harness cut")
	// whatever was emitted
	emitted := map[common.Hash128]int{}
	for len(d.requests) > 0 {
		r := <-d.requests
		emitted[r.Hash]++
		vCover("requested")
		i := 0
		if r.Hash == hs[1] {
			i = 1
		}
		vAssert(!h.held[r.Hash], "no request is issued for an item that is already stored")
		vAssert(active[i], "a further announcer is only asked while a pull for the item is outstanding")
		now, _ := d.activePulls.Load(r.Hash)
		vAssert(!now.(time.Time).Before(pull[i].Add(delay)), "a further announcer is asked only after the pull delay has passed without the item arriving")
		vAssert(emitted[r.Hash] == 1 || true, "")
	}
	vAssert(vSorted(d.pendingPushes.list), "pending list stays sorted")
	vAssert(d.pendingPushes.Len() <= pending, "the loop never grows the pending list")
	if pending > 0 && h.held[hs[0]] && h.held[hs[1]] {
		vCover("droppedHeld")
		vAssert(len(emitted) == 0, "nothing is requested once everything is stored")
	}
	vCover("end")
}


//verif:obligation C20.d tier=quick use=clock bounds=2-hashes,1-pending-announcer-for-the-first,one-concurrent-event-while-loop-sleeps(none|item-arrives-at-a-holder-that-does-not-cancel-the-pull|announcement-of-the-other-hash|pull-refresh),2-loop-iterations(cut) covers=arrived,announced,refreshed,requested,end
// loop() (real code) with ONE event of another goroutine placed at the loop's sleep (the only place where it
// waits, holding no lock): the interleavings "item arrives / other hash announced / pull refreshed while the
// head entry waits for its pull delay". No request goes out for an item that is stored by then, and no
// pending announcer is lost: each is afterwards still pending, or was asked, or was dropped because its item
// is stored or its pull is no longer outstanding.
func H_C20d() {
	delay := 10 * time.Second
	d := NewDefaultPushTracker(delay)
	h := &vHolder{held: map[common.Hash128]bool{}}
	d.SetHolder(h)
	a, b := vHash(1), vHash(2)
	vClock = 0
	// B was asked for first, then A; a further peer announces A
	d.RegisterPull(b)
	vClock += int64(vChoice("gapBA", 2)) * int64(time.Second)
	d.RegisterPull(a)
	vClock += int64(time.Second)
	d.AddPendingPush(peer.ID("a2"), a)
	added := []PendingPulls{{Id: peer.ID("a2"), Hash: a}}
	switch vChoice("duringSleep", 4) {
	case 1:
		vCover("arrived")
		vDuringSleep = func() { h.held[a] = true } // TxPool / KeysPool style holder: Add does not call RemovePull
	case 2:
		vCover("announced")
		vDuringSleep = func() { d.AddPendingPush(peer.ID("b2"), b) }
		added = append(added, PendingPulls{Id: peer.ID("b2"), Hash: b})
	case 3:
		vCover("refreshed")
		vDuringSleep = func() { d.RegisterPull(a) }
	}
	h.hasCalls, h.cutAfter = 0, 2
	vSleeps, vSleepCut = 0, 3
	cut := vPanics(func() { d.loop() })
	vDuringSleep = nil
	vAssert(cut, "the loop only stops at the harness cut")
	var emitted []PendingPulls
	for len(d.requests) > 0 {
		r := <-d.requests
		vCover("requested")
		vAssert(!h.held[r.Hash], "no request is issued for an item that is already stored")
		emitted = append(emitted, r)
	}
	for _, e := range added {
		kept := false
		for _, p := range d.pendingPushes.list {
			kept = kept || p.req == e
		}
		asked := false
		for _, r := range emitted {
			asked = asked || r == e
		}
		_, outstanding := d.activePulls.Load(e.Hash)
		vAssert(kept || asked || h.held[e.Hash] || !outstanding, "the tracker does not lose an announcer that could still serve the item")
	}
	vAssert(len(emitted) <= len(added), "each announcer is asked at most once")
	vCover("end")
}
