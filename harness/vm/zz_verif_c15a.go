package vm

import (
	"errors"
	"math/big"

	"github.com/idena-network/idena-go/blockchain/attachments"
	"github.com/idena-network/idena-go/blockchain/types"
	"github.com/idena-network/idena-go/common"
	"github.com/idena-network/idena-go/config"
	"github.com/idena-network/idena-go/core/appstate"
	"github.com/idena-network/idena-go/core/state"
	"github.com/idena-network/idena-go/vm/embedded"
	env2 "github.com/idena-network/idena-go/vm/env"
)

// C15.a / C15.b: the embedded VM (real VmImpl.Run, real EnvImp) driven by an ARBITRARY contract: a contract
// body that performs a symbolic sequence of the money-moving environment calls (Send to any tracked address
// incl. itself, MoveToStake, BurnAll) with symbolic amounts and then returns, fails or panics. A reference
// model of balances and stakes is kept beside it. Failure must leave no trace; success must leave exactly
// the reference model's state, which conserves value apart from the explicit burns.

type vShadow struct {
	bal      map[byte]*big.Int
	stake    map[byte]*big.Int // nil = no contract data
	burnt    *big.Int
	minted   *big.Int // stake created by a deployment (paid by the sender in applyTxOnState, C15.c)
	mustFail bool
}

type vContract struct {
	env  *env2.EnvImp
	ctx  env2.CallContext
	self byte
}

var vSh *vShadow
var vOps int

func vDest(name string) (common.Address, byte) {
	i := byte(vChoice(name, 4) + 1)
	return state.VAddr(i), i
}

func (c *vContract) run(allowStake bool) error {
	sh := vSh
	for i := 0; i < vOps; i++ {
		tag := string(rune('0' + i))
		switch vChoice("op"+tag, 4) {
		case 0:
		case 1:
			dest, di := vDest("op" + tag + ".dest")
			amt := vBig("op" + tag + ".amount")
			err := c.env.Send(c.ctx, dest, amt)
			if vAnd(amt.Sign() >= 0, sh.bal[c.self].Cmp(amt) >= 0) {
				vAssert(err == nil, "[C15] a transfer within the contract's balance succeeds")
				sh.bal[c.self] = new(big.Int).Sub(sh.bal[c.self], amt)
				sh.bal[di] = new(big.Int).Add(sh.bal[di], amt)
			} else {
				vAssert(err != nil, "[C15] a contract can never send more than it holds (nor a negative amount)")
				if vBool("op" + tag + ".propagatesError") {
					sh.mustFail = true
					return err
				}
			}
		case 2:
			if !allowStake {
				break
			}
			amt := vBig("op" + tag + ".amount")
			err := c.env.MoveToStake(c.ctx, amt)
			if vAnd(amt.Sign() >= 0, sh.bal[c.self].Cmp(amt) >= 0) {
				vAssert(err == nil, "[C15] moving available balance to the stake succeeds")
				sh.bal[c.self] = new(big.Int).Sub(sh.bal[c.self], amt)
				sh.stake[c.self] = new(big.Int).Add(sh.stake[c.self], amt)
			} else {
				vAssert(err != nil, "[C15] a contract can never stake more than it holds")
				sh.mustFail = true
				return err
			}
		case 3:
			c.env.BurnAll(c.ctx)
			sh.burnt = new(big.Int).Add(sh.burnt, sh.bal[c.self])
			sh.bal[c.self] = new(big.Int)
		}
	}
	switch vChoice("outcome", 3) {
	case 1:
		sh.mustFail = true
		return errors.New("contract failed")
	case 2:
		sh.mustFail = true
		panic("contract panicked")
	}
	return nil
}

func (c *vContract) Deploy(args ...[]byte) error           { return c.run(false) }
func (c *vContract) Call(method string, args ...[]byte) error { return c.run(true) }
func (c *vContract) Read(method string, args ...[]byte) ([]byte, error) { return nil, nil }
func (c *vContract) Terminate(args ...[]byte) (common.Address, [][]byte, error) {
	err := c.run(false)
	dest, di := vDest("terminate.dest")
	if err == nil {
		// reference model of EnvImp.Terminate: half of the stake is refunded, the other half burnt
		if s := vSh.stake[c.self]; s != nil && s.Sign() != 0 {
			refund := new(big.Int).Quo(s, big.NewInt(2))
			vSh.bal[di] = new(big.Int).Add(vSh.bal[di], refund)
			vSh.burnt = new(big.Int).Add(vSh.burnt, new(big.Int).Sub(s, refund))
			vSh.stake[c.self] = nil
		}
	}
	return dest, nil, err
}

//verif:override c15a (*idena-go/vm.VmImpl).createContract vC15CreateContract
func vC15CreateContract(vm *VmImpl, ctx env2.CallContext) embedded.Contract {
	a := ctx.ContractAddr()
	return &vContract{env: vm.env, ctx: ctx, self: a[19]}
}

// the contract address of a deployment: a fresh tracked address (the real one is a hash)
//verif:override c15a idena-go/vm/env.ComputeContractAddr vC15ContractAddr
func vC15ContractAddr(tx *types.Transaction, from common.Address) common.Address { return state.VAddr(4) }

// the contract's key/value store is not the subject (no value moves through it)
//verif:override c15a (*idena-go/vm/env.EnvImp).Iterate vC15Iterate
func vC15Iterate(e *env2.EnvImp, ctx env2.CallContext, minKey []byte, maxKey []byte, f func(key []byte, value []byte) (stopped bool)) {
}

func vStakeOr0(st *state.StateDB, a common.Address) *big.Int {
	if s := st.GetContractStake(a); s != nil {
		return s
	}
	return new(big.Int)
}

func vC15Run(t types.TxType) {
	vOps = 1
	if t == types.CallContractTx {
		vOps = 2
	}
	if vThorough() {
		vOps++
	}
	w := appstate.VBuildWorld(state.VShape{})
	st := w.App.State
	contract := w.T
	self := byte(2)
	tx := &types.Transaction{Type: t, AccountNonce: 1, Amount: vBig("tx.amount")}
	vAssume(tx.Amount.Sign() >= 0)
	switch t {
	case types.DeployContractTx:
		contract, self = w.F, 4
		tx.Payload, _ = attachments.CreateDeployContractAttachment(embedded.TimeLockContract, nil, nil).ToBytes()
	case types.CallContractTx:
		tx.To = &contract
		tx.Payload, _ = attachments.CreateCallContractAttachment("m").ToBytes()
	case types.TerminateContractTx:
		tx.To = &contract
		tx.Payload, _ = attachments.CreateTerminateContractAttachment().ToBytes()
	}
	types.VSetSender(tx, w.S)
	types.VSetHash(tx, common.Hash{1})
	if t != types.DeployContractTx {
		bal, stake := vBig("contract.balance"), vBig("contract.stake")
		vAssume(bal.Sign() >= 0)
		vAssume(stake.Sign() >= 0)
		st.VPutAccount(contract, state.Account{Balance: bal, Contract: &state.ContractData{CodeHash: embedded.TimeLockContract, Stake: stake}})
	}
	sh := &vShadow{bal: map[byte]*big.Int{}, stake: map[byte]*big.Int{}, burnt: new(big.Int), minted: new(big.Int)}
	pre := map[byte]*big.Int{}
	total := new(big.Int)
	for i := byte(1); i <= 4; i++ {
		b := st.GetBalance(state.VAddr(i))
		pre[i] = new(big.Int).Set(b)
		sh.bal[i] = new(big.Int).Set(b)
		total.Add(total, b)
	}
	preStake := st.GetContractStake(contract)
	if preStake != nil {
		sh.stake[self] = new(big.Int).Set(preStake)
		total.Add(total, preStake)
	}
	vSh = sh
	limit := vI64("gasLimit")
	vAssume(limit >= 0)
	vAssume(limit <= 1<<40)
	cfg := &config.Config{Consensus: config.GetDefaultConsensusConfig()}
	machine := NewVmImpl(w.App, nil, &types.Header{ProposedHeader: &types.ProposedHeader{Height: 10}}, nil, cfg)

	r := machine.Run(tx, nil, limit, true)

	vAssert(r.GasUsed <= uint64(limit), "[C15] gas used never exceeds the gas limit")
	if sh.mustFail {
		vAssert(!r.Success, "[C15] a contract that fails or panics yields a failed receipt")
	}
	if vAnd(!sh.mustFail, limit >= 1<<30) {
		vAssert(r.Success, "[C15] a contract that neither fails nor runs out of gas succeeds")
	}
	if r.Success {
		vCover("success")
		if t == types.DeployContractTx {
			sh.stake[self] = tx.Amount
			sh.minted = tx.Amount
		}
		sum := new(big.Int)
		for i := byte(1); i <= 4; i++ {
			b := st.GetBalance(state.VAddr(i))
			vAssert(b.Cmp(sh.bal[i]) == 0, "[C15] a successful contract run applies exactly its transfers (balance differs from the reference model)")
			vAssert(b.Sign() >= 0, "[C04,C15] no negative balance after a contract run")
			sum.Add(sum, b)
		}
		post := st.GetContractStake(contract)
		if sh.stake[self] == nil {
			vAssert(post == nil, "[C15] a terminated contract keeps no stake")
		} else {
			vAssert(post != nil && post.Cmp(sh.stake[self]) == 0, "[C15] the contract stake after a successful run is the reference model's")
			sum.Add(sum, post)
		}
		want := new(big.Int).Add(total, sh.minted)
		want.Sub(want, sh.burnt)
		vAssert(sum.Cmp(want) == 0, "[C15] value moved between sender, contracts and recipients is conserved apart from explicit burns")
	} else {
		vCover("failure")
		for i := byte(1); i <= 4; i++ {
			vAssert(st.GetBalance(state.VAddr(i)).Cmp(pre[i]) == 0, "[C15] a failed contract run leaves no trace in balances")
		}
		post := st.GetContractStake(contract)
		if preStake == nil {
			vAssert(post == nil, "[C15] a failed deployment leaves no contract behind")
		} else {
			vAssert(post != nil && post.Cmp(preStake) == 0, "[C15] a failed contract run leaves the stake untouched")
		}
		vAssert((st.GetCodeHash(contract) != nil) == (preStake != nil), "[C15] a failed run neither creates nor drops the contract")
	}
	vCover("end")
}

//verif:obligation C15.a.call tier=quick use=world,c15a covers=success,failure,end bounds=arbitrary-contract-body:<=2-env-ops(quick)/3(thorough)-of-Send/MoveToStake/BurnAll,4-tracked-addresses-incl-self,symbolic-amounts-balances-stake-gas-limit
func H_C15a_Call() { vC15Run(types.CallContractTx) }

//verif:obligation C15.a.terminate tier=quick use=world,c15a covers=success,failure,end bounds=arbitrary-contract-body:<=1-env-op(quick)/2(thorough)-of-Send/BurnAll-then-Terminate(dest-any-tracked),symbolic-stake
func H_C15a_Terminate() { vC15Run(types.TerminateContractTx) }

//verif:obligation C15.a.deploy tier=quick use=world,c15a covers=success,failure,end bounds=arbitrary-contract-body:<=1-env-op(quick)/2(thorough)-of-Send/BurnAll-then-Deploy,fresh-contract-address
func H_C15a_Deploy() { vC15Run(types.DeployContractTx) }
