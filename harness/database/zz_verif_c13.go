package database

import (
	"bytes"

	mapset "github.com/deckarep/golang-set"
	db "github.com/tendermint/tm-db"
)

// vMem: the environment - an ordinary ordered key/value store (what tm-db's MemDB / goleveldb are),
// as a sorted slice. Used for the overlay's inner store, for the underlying (permanent) store, and for
// the reference model "ordinary store pre-loaded with the underlying data".
type vMem struct {
	keys   [][]byte
	vals   [][]byte
	writes int
}

func (m *vMem) find(key []byte) (int, bool) {
	for i, k := range m.keys {
		c := bytes.Compare(k, key)
		if c == 0 {
			return i, true
		}
		if c > 0 {
			return i, false
		}
	}
	return len(m.keys), false
}

func (m *vMem) Get(key []byte) ([]byte, error) {
	if i, ok := m.find(key); ok {
		return m.vals[i], nil
	}
	return nil, nil
}
func (m *vMem) Has(key []byte) (bool, error) { _, ok := m.find(key); return ok, nil }
func (m *vMem) Set(key, value []byte) error {
	m.writes++
	i, ok := m.find(key)
	if ok {
		m.vals[i] = value
		return nil
	}
	m.keys = append(m.keys, nil)
	m.vals = append(m.vals, nil)
	copy(m.keys[i+1:], m.keys[i:])
	copy(m.vals[i+1:], m.vals[i:])
	m.keys[i], m.vals[i] = key, value
	return nil
}
func (m *vMem) SetSync(key, value []byte) error { return m.Set(key, value) }
func (m *vMem) Delete(key []byte) error {
	m.writes++
	if i, ok := m.find(key); ok {
		m.keys = append(m.keys[:i:i], m.keys[i+1:]...)
		m.vals = append(m.vals[:i:i], m.vals[i+1:]...)
	}
	return nil
}
func (m *vMem) DeleteSync(key []byte) error { return m.Delete(key) }
func (m *vMem) Close() error                { return nil }
func (m *vMem) Print() error                { return nil }
func (m *vMem) Stats() map[string]string    { return nil }
func (m *vMem) NewBatch() db.Batch          { return &vMemBatch{m: m} }

func (m *vMem) rng(start, end []byte, reverse bool) *vMemIter {
	it := &vMemIter{start: start, end: end}
	for i, k := range m.keys {
		if start != nil && bytes.Compare(k, start) < 0 {
			continue
		}
		if end != nil && bytes.Compare(k, end) >= 0 {
			continue
		}
		it.keys = append(it.keys, k)
		it.vals = append(it.vals, m.vals[i])
	}
	if reverse {
		for i, j := 0, len(it.keys)-1; i < j; i, j = i+1, j-1 {
			it.keys[i], it.keys[j] = it.keys[j], it.keys[i]
			it.vals[i], it.vals[j] = it.vals[j], it.vals[i]
		}
	}
	return it
}
func (m *vMem) Iterator(start, end []byte) (db.Iterator, error)        { return m.rng(start, end, false), nil }
func (m *vMem) ReverseIterator(start, end []byte) (db.Iterator, error) { return m.rng(start, end, true), nil }

type vMemIter struct {
	keys, vals [][]byte
	pos        int
	start, end []byte
}

func (it *vMemIter) Domain() ([]byte, []byte) { return it.start, it.end }
func (it *vMemIter) Valid() bool              { return it.pos < len(it.keys) }
func (it *vMemIter) Next()                    { it.pos++ }
func (it *vMemIter) Key() []byte              { return it.keys[it.pos] }
func (it *vMemIter) Value() []byte            { return it.vals[it.pos] }
func (it *vMemIter) Error() error             { return nil }
func (it *vMemIter) Close() error             { return nil }

type vMemBatchOp struct {
	del        bool
	key, value []byte
}
type vMemBatch struct {
	m   *vMem
	ops []vMemBatchOp
}

func (b *vMemBatch) Set(key, value []byte) error {
	b.ops = append(b.ops, vMemBatchOp{key: key, value: value})
	return nil
}
func (b *vMemBatch) Delete(key []byte) error {
	b.ops = append(b.ops, vMemBatchOp{del: true, key: key})
	return nil
}
func (b *vMemBatch) Write() error {
	for _, o := range b.ops {
		if o.del {
			b.m.Delete(o.key)
		} else {
			b.m.Set(o.key, o.value)
		}
	}
	b.ops = nil
	return nil
}
func (b *vMemBatch) WriteSync() error { return b.Write() }
func (b *vMemBatch) Close() error     { b.ops = nil; return nil }

func vKey(name string) []byte {
	k := vU8(name)
	vAssume(k >= 1)
	vAssume(k <= 3)
	return []byte{k}
}

func vDrain(it db.Iterator) (keys, vals [][]byte) {
	for n := 0; it.Valid() && n < 8; n++ {
		keys = append(keys, it.Key())
		vals = append(vals, it.Value())
		it.Next()
	}
	it.Close()
	return
}

func vSameSeq(a, b [][]byte) bool {
	if len(a) != len(b) {
		return false
	}
	for i := range a {
		if !bytes.Equal(a[i], b[i]) {
			return false
		}
	}
	return true
}

func vC13(nops int) {
	perm, ref := &vMem{}, &vMem{}
	for k := byte(1); k <= 3; k++ {
		if vBool("base.has" + string(rune('0'+k))) {
			v := []byte{vU8("base.val" + string(rune('0'+k)))}
			perm.Set([]byte{k}, v)
			ref.Set([]byte{k}, v)
		}
	}
	perm.writes = 0
	view := &BackedMemDb{inner: &vMem{}, permanent: perm, touched: mapset.NewSet()}
	for i := 0; i < nops; i++ {
		var op int
		if nops >= 3 && i < nops-1 {
			// three operations: two direct mutations (set, delete) followed by any operation - the full cube of
			// six operation kinds with all their parameters does not fit the path budget
			op = []int{1, 2}[vChoice("mutation", 2)]
		} else {
			op = vChoice("op", 6)
		}
		switch op {
		case 0:
			vCover("get")
			k := vKey("get.key")
			a, _ := view.Get(k)
			b, _ := ref.Get(k)
			vAssert(bytes.Equal(a, b) && (a == nil) == (b == nil), "Get answers like an ordinary store pre-loaded with the base")
			ha, _ := view.Has(k)
			hb, _ := ref.Has(k)
			vAssert(ha == hb, "Has answers like an ordinary store pre-loaded with the base")
		case 1:
			vCover("set")
			k, v := vKey("set.key"), []byte{vU8("set.val")}
			view.Set(k, v)
			ref.Set(k, v)
		case 2:
			vCover("delete")
			k := vKey("del.key")
			view.Delete(k)
			ref.Delete(k)
		case 3, 4:
			var start, end []byte
			if vBool("it.hasStart") {
				start = vKey("it.start")
			}
			if vBool("it.hasEnd") {
				end = []byte{vU8("it.end")}
				vAssume(end[0] >= 1)
				vAssume(end[0] <= 4)
			}
			if start != nil && end != nil {
				vAssume(start[0] < end[0]) // tm-db contract: start < end
			}
			var ia, ib db.Iterator
			if vChoice("it.reverse", 2) == 0 {
				vCover("iterate")
				ia, _ = view.Iterator(start, end)
				ib, _ = ref.Iterator(start, end)
			} else {
				vCover("reverse")
				ia, _ = view.ReverseIterator(start, end)
				ib, _ = ref.ReverseIterator(start, end)
			}
			ka, va := vDrain(ia)
			kb, vb := vDrain(ib)
			vAssert(vSameSeq(ka, kb), "iteration yields the keys of an ordinary store pre-loaded with the base, in order")
			vAssert(vSameSeq(va, vb), "iteration yields the values of an ordinary store pre-loaded with the base")
		case 5:
			vCover("batch")
			// a batch is queued, the view is read, then the batch is written or discarded
			ba, bb := view.NewBatch(), ref.NewBatch()
			k := vKey("batch.key")
			if vBool("batch.delete") {
				ba.Delete(k)
				bb.Delete(k)
			} else {
				v := []byte{vU8("batch.val")}
				ba.Set(k, v)
				bb.Set(k, v)
			}
			rk := vKey("batch.readKey")
			a, _ := view.Get(rk)
			b, _ := ref.Get(rk)
			vAssert(bytes.Equal(a, b) && (a == nil) == (b == nil), "a queued, unwritten batch does not change what the view returns")
			if vBool("batch.write") {
				ba.Write()
				bb.Write()
			} else {
				vCover("batchDiscarded")
				ba.Close()
				bb.Close()
			}
		}
	}
	// whatever happened: the final contents agree and the underlying store was never written
	ka, va := vDrain(func() db.Iterator { it, _ := view.Iterator(nil, nil); return it }())
	kb, vb := vDrain(func() db.Iterator { it, _ := ref.Iterator(nil, nil); return it }())
	vAssert(vSameSeq(ka, kb) && vSameSeq(va, vb), "final contents equal those of an ordinary store pre-loaded with the base")
	vAssert(perm.writes == 0, "the underlying store is never written through the view")
	vCover("end")
}

//verif:obligation C13.a tier=quick bounds=keys-1..3(1-byte),base<=3-entries-symbolic,2-operations-from-get/has/set/delete/iterate/reverse/batch(queue+read+write|discard) covers=get,set,delete,iterate,reverse,batch,batchDiscarded
// BackedMemDb (real code: Get/Has/Set/Delete/Iterator/ReverseIterator/iterator.Next/backedMemBatch)
// against the reference "ordinary ordered store pre-loaded with the base", operation by operation.
func H_C13a() { vC13(2) }

//verif:obligation C13.b tier=thorough bounds=as-C13.a-with-3-operations:two-mutations(set|delete)-then-any-operation covers=get,set,delete,iterate,reverse,batch,batchDiscarded
func H_C13b() { vC13(3) }
