package database

import db "github.com/tendermint/tm-db"

// VNewMem: the harness key/value store (sorted slice, exact tm-db semantics for what the repo uses).
func VNewMem() db.DB { return &vMem{} }
