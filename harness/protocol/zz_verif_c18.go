package protocol

// C18.a / C18.b for the encodable objects of this package - see harness/blockchain/types/zz_verif_c18.go.

//verif:gen -block.Header Msg handshakeData pushPullHash updateShardId msgBatch disconnect blockRange

//verif:obligation C18.a.proto.msg tier=quick bigblob=1 covers=end bounds=arbitrary-Msg(every-field-by-type,byte-strings-and-lists<=1(quick)/2(thorough),optional-fields-nil-or-set,non-negative-integers)
func H_C18_Msg() {
	var x Msg
	VFill_Msg(&x, "x")
	vC18Pre_Msg(&x)
	b, err := x.ToBytes()
	vAssert(err == nil, "[C18] Msg encodes")
	y := vC18New_Msg()
	vAssert(y.FromBytes(b) == nil, "[C18] Msg decodes from its own encoding")
	vAssert(VEq_Msg(&x, y), "[C18] Msg decodes from its own encoding to an equal object")
	b2, _ := y.ToBytes()
	vAssert(vProtoSame(b, b2), "[C18] a decoded Msg re-encodes to identical bytes")
	vCover("end")
}

//verif:obligation C18.a.proto.handshakedata tier=quick bigblob=1 covers=end bounds=arbitrary-handshakeData(every-field-by-type,byte-strings-and-lists<=1(quick)/2(thorough),optional-fields-nil-or-set,non-negative-integers)
func H_C18_handshakeData() {
	var x handshakeData
	VFill_handshakeData(&x, "x")
	vC18Pre_handshakeData(&x)
	b, err := x.ToBytes()
	vAssert(err == nil, "[C18] handshakeData encodes")
	y := vC18New_handshakeData()
	vAssert(y.FromBytes(b) == nil, "[C18] handshakeData decodes from its own encoding")
	vAssert(VEq_handshakeData(&x, y), "[C18] handshakeData decodes from its own encoding to an equal object")
	b2, _ := y.ToBytes()
	vAssert(vProtoSame(b, b2), "[C18] a decoded handshakeData re-encodes to identical bytes")
	vCover("end")
}

//verif:obligation C18.a.proto.pushpullhash tier=quick bigblob=1 covers=end bounds=arbitrary-pushPullHash(every-field-by-type,byte-strings-and-lists<=1(quick)/2(thorough),optional-fields-nil-or-set,non-negative-integers)
func H_C18_pushPullHash() {
	var x pushPullHash
	VFill_pushPullHash(&x, "x")
	vC18Pre_pushPullHash(&x)
	b, err := x.ToBytes()
	vAssert(err == nil, "[C18] pushPullHash encodes")
	y := vC18New_pushPullHash()
	vAssert(y.FromBytes(b) == nil, "[C18] pushPullHash decodes from its own encoding")
	vAssert(VEq_pushPullHash(&x, y), "[C18] pushPullHash decodes from its own encoding to an equal object")
	b2, _ := y.ToBytes()
	vAssert(vProtoSame(b, b2), "[C18] a decoded pushPullHash re-encodes to identical bytes")
	vCover("end")
}

//verif:obligation C18.a.proto.updateshardid tier=quick bigblob=1 covers=end bounds=arbitrary-updateShardId(every-field-by-type,byte-strings-and-lists<=1(quick)/2(thorough),optional-fields-nil-or-set,non-negative-integers)
func H_C18_updateShardId() {
	var x updateShardId
	VFill_updateShardId(&x, "x")
	vC18Pre_updateShardId(&x)
	b, err := x.ToBytes()
	vAssert(err == nil, "[C18] updateShardId encodes")
	y := vC18New_updateShardId()
	vAssert(y.FromBytes(b) == nil, "[C18] updateShardId decodes from its own encoding")
	vAssert(VEq_updateShardId(&x, y), "[C18] updateShardId decodes from its own encoding to an equal object")
	b2, _ := y.ToBytes()
	vAssert(vProtoSame(b, b2), "[C18] a decoded updateShardId re-encodes to identical bytes")
	vCover("end")
}

//verif:obligation C18.a.proto.msgbatch tier=quick bigblob=1 covers=end bounds=arbitrary-msgBatch(every-field-by-type,byte-strings-and-lists<=1(quick)/2(thorough),optional-fields-nil-or-set,non-negative-integers)
func H_C18_msgBatch() {
	var x msgBatch
	VFill_msgBatch(&x, "x")
	vC18Pre_msgBatch(&x)
	b, err := x.ToBytes()
	vAssert(err == nil, "[C18] msgBatch encodes")
	y := vC18New_msgBatch()
	vAssert(y.FromBytes(b) == nil, "[C18] msgBatch decodes from its own encoding")
	vAssert(VEq_msgBatch(&x, y), "[C18] msgBatch decodes from its own encoding to an equal object")
	b2, _ := y.ToBytes()
	vAssert(vProtoSame(b, b2), "[C18] a decoded msgBatch re-encodes to identical bytes")
	vCover("end")
}

//verif:obligation C18.a.proto.disconnect tier=quick bigblob=1 covers=end bounds=arbitrary-disconnect(every-field-by-type,byte-strings-and-lists<=1(quick)/2(thorough),optional-fields-nil-or-set,non-negative-integers)
func H_C18_disconnect() {
	var x disconnect
	VFill_disconnect(&x, "x")
	vC18Pre_disconnect(&x)
	b, err := x.ToBytes()
	vAssert(err == nil, "[C18] disconnect encodes")
	y := vC18New_disconnect()
	vAssert(y.FromBytes(b) == nil, "[C18] disconnect decodes from its own encoding")
	vAssert(VEq_disconnect(&x, y), "[C18] disconnect decodes from its own encoding to an equal object")
	b2, _ := y.ToBytes()
	vAssert(vProtoSame(b, b2), "[C18] a decoded disconnect re-encodes to identical bytes")
	vCover("end")
}

//verif:obligation C18.a.proto.blockrange tier=quick bigblob=1 covers=end bounds=arbitrary-blockRange(every-field-by-type,byte-strings-and-lists<=1(quick)/2(thorough),optional-fields-nil-or-set,non-negative-integers)
func H_C18_blockRange() {
	var x blockRange
	VFill_blockRange(&x, "x")
	vC18Pre_blockRange(&x)
	b, err := x.ToBytes()
	vAssert(err == nil, "[C18] blockRange encodes")
	y := vC18New_blockRange()
	vAssert(y.FromBytes(b) == nil, "[C18] blockRange decodes from its own encoding")
	vAssert(VEq_blockRange(&x, y), "[C18] blockRange decodes from its own encoding to an equal object")
	b2, _ := y.ToBytes()
	vAssert(vProtoSame(b, b2), "[C18] a decoded blockRange re-encodes to identical bytes")
	vCover("end")
}
