package protocol

import (
	"unsafe"

	"github.com/idena-network/idena-go/blockchain/types"
)

//verif:gen -block.Header block

// C12.c (protocol part): an arbitrary decoded block range - any block may lack its header, certificate or
// identity diff, a header may lack both or carry both kinds - is either refused by IsValid or safe for the
// handler's loop (protocol/gossip.go BlocksRange: p.setHeight(b.Header.Height())) and for the sync code that
// reads the deferred headers.
//verif:obligation C12.c.blockrange tier=quick covers=valid,invalid,end bounds=arbitrary-decoded-blockRange(<=2-blocks,header/either-header-kind/certificate/identity-diff-each-absent-or-present)
func H_C12c_BlockRange() {
	var r blockRange
	r.BatchId = vU32("batchId")
	n := vChoice("blocks", 3)
	for i := 0; i < n; i++ {
		var b block
		VFill_block(&b, "b")
		var h types.Header
		if !vBool("header.proposed.nil") {
			h.ProposedHeader = &types.ProposedHeader{Height: vU64("header.height")}
		}
		if !vBool("header.empty.nil") {
			h.EmptyBlockHeader = &types.EmptyBlockHeader{Height: vU64("header.emptyHeight")}
		}
		b.Header = (*types.Header)(vNilIf(vBool("header.nil"), unsafe.Pointer(&h)))
		r.Blocks = append(r.Blocks, &b)
	}
	if r.IsValid() {
		vCover("valid")
		for _, b := range r.Blocks {
			_ = b.Header.Height()
			_ = b.Header.Flags()
			_ = b.Header.ParentHash()
			_ = b.Cert.Empty()
			_ = b.IdentityDiff.Empty()
		}
	} else {
		vCover("invalid")
	}
	vCover("end")
}
