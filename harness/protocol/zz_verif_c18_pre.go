package protocol

// documented preconditions of the encodings and the empty object a decoder starts from

func vC18Pre_Msg(x *Msg) {}
func vC18New_Msg() *Msg { return new(Msg) }

func vC18Pre_handshakeData(x *handshakeData) {}
func vC18New_handshakeData() *handshakeData { return new(handshakeData) }

func vC18Pre_pushPullHash(x *pushPullHash) {}
func vC18New_pushPullHash() *pushPullHash { return new(pushPullHash) }

func vC18Pre_updateShardId(x *updateShardId) {}
func vC18New_updateShardId() *updateShardId { return new(updateShardId) }

func vC18Pre_msgBatch(x *msgBatch) {}
func vC18New_msgBatch() *msgBatch { return new(msgBatch) }

func vC18Pre_disconnect(x *disconnect) {}
func vC18New_disconnect() *disconnect { return new(disconnect) }

func vC18Pre_blockRange(x *blockRange) {}
func vC18New_blockRange() *blockRange { return new(blockRange) }
