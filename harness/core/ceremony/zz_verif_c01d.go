package ceremony

import (
	"math/big"

	mapset "github.com/deckarep/golang-set"
	"github.com/idena-network/idena-go/blockchain/types"
	statsTypes "github.com/idena-network/idena-go/stats/types"

	"github.com/idena-network/idena-go/common"
	"github.com/idena-network/idena-go/config"
	"github.com/idena-network/idena-go/core/appstate"
	"github.com/idena-network/idena-go/core/state"
	"github.com/idena-network/idena-go/core/validators"
	"github.com/idena-network/idena-go/log"
)

// C01.d / C17.c: the epoch results are kept in a Go map (address -> outcome) and applied by ranging over
// it. Two nodes range in different orders; the state after the loop must not depend on the order.

type vC01dId struct {
	st                       uint8
	stake, repl, lock, bal   *big.Int
	delegatee                int // 0 = none, else address number
	pending                  bool
	birthday, delEpoch, undelEpoch uint16
}

func vC01dBuild(ids []vC01dId, epoch uint16) *appstate.AppState {
	st := state.VNewStateDB()
	st.VPutGlobal(state.Global{Epoch: epoch, EmptyBlocksByShards: map[common.ShardId][]common.Address{}, ShardSizes: map[common.ShardId]uint32{}})
	for i, d := range ids {
		a := state.VAddr(byte(i + 1))
		id := state.Identity{State: state.IdentityState(d.st), Stake: new(big.Int).Set(d.stake), Birthday: d.birthday, DelegationEpoch: d.delEpoch, ShardId: 1, Generation: uint32(i + 1)}
		var del *common.Address
		if d.delegatee != 0 {
			x := state.VAddr(byte(d.delegatee))
			del = &x
		}
		state.VIdentityHidden(&id, del, d.pending, d.undelEpoch, new(big.Int).Set(d.repl), new(big.Int).Set(d.lock), 0, 0)
		st.VPutIdentity(a, id)
		st.VPutAccount(a, state.Account{Balance: new(big.Int).Set(d.bal)})
	}
	return &appstate.AppState{State: st, ValidatorsCache: validators.NewValidatorsCache(state.VNewIdentityStateDB(), common.Address{})}
}

// delegation pattern: the two re-evaluated identities A and P may delegate to any other identity, the two
// bystanders Q and R to each other (this contains every chain X -> Y -> Z with X, Y in {A, P})
func vC01dDelegatee(n string, i int) int {
	if i < 2 {
		if c := vChoice(n+".delegatee", 4); c != 0 {
			return (i+c)%4 + 1
		}
		return 0
	}
	if vBool(n + ".delegates") {
		return 7 - (i + 1) // Q(3) <-> R(4)
	}
	return 0
}

func vNN(name string) *big.Int {
	b := vBig(name)
	vAssume(b.Sign() >= 0)
	return b
}

func vSameAddrPtr(a, b *common.Address) bool {
	if a == nil || b == nil {
		return a == nil && b == nil
	}
	return *a == *b
}

//verif:obligation C01.d tier=quick covers=bothValidated,transitive,end bounds=cache-hit-branch-of-ApplyNewEpoch,2-epoch-results(A,P)-over-4-identities(A,P,Q,R),every-delegation-pattern-among-them,all-9-statuses-before-and-after,symbolic-stakes/balances/epochs,both-upgrade-10-settings,upgrade-12-symbolic
//verif:obligation C17.c tier=quick covers=bothValidated,transitive,end bounds=same-as-C01.d
// ApplyNewEpoch (real code, cache-hit branch: the loop over epochApplyingResult and applyOnState) on two
// copies of the same state under two arbitrary map iteration orders: every identity and balance ends equal.
func H_C01d() {
	epoch := vU16("epoch")
	ids := make([]vC01dId, 4)
	names := []string{"A", "P", "Q", "R"}
	for i := range ids {
		n := names[i]
		d := &ids[i]
		d.st = vU8(n + ".state")
		vAssume(d.st <= 8)
		d.stake, d.repl, d.lock, d.bal = vNN(n+".stake"), vNN(n+".replenished"), vNN(n+".locked"), vNN(n+".balance")
		vAssume(d.repl.Cmp(d.stake) <= 0)
		vAssume(d.lock.Cmp(d.stake) <= 0)
		d.birthday, d.delEpoch, d.undelEpoch = vU16(n+".birthday"), vU16(n+".delegationEpoch"), vU16(n+".undelegationEpoch")
		// delegatee: none or one of the OTHER identities
		d.delegatee = vC01dDelegatee(n, i)
		d.pending = vBool(n + ".pendingUndelegation")
	}
	// the outcomes of A and P as ApplyNewEpoch computes them: previous status and delegatee are the
	// identity's, the new status is whatever the qualification decided
	vals := map[common.Address]cacheValue{}
	for i := 0; i < 2; i++ {
		n := names[i]
		ns := vU8(n + ".newState")
		vAssume(ns <= 8)
		v := cacheValue{state: state.IdentityState(ns), prevState: state.IdentityState(ids[i].st), birthday: vU16(n + ".newBirthday"),
			missed: true, participated: vBool(n + ".participated")}
		if ids[i].delegatee != 0 && !ids[i].pending {
			x := state.VAddr(byte(ids[i].delegatee))
			v.delegatee = &x
		}
		vals[state.VAddr(byte(i+1))] = v
	}
	if vals[state.VAddr(1)].state.NewbieOrBetter() && vals[state.VAddr(2)].state.NewbieOrBetter() {
		vCover("bothValidated")
	}
	if ids[0].delegatee == 2 && ids[1].delegatee == 3 && ids[2].delegatee == 4 {
		vCover("transitive")
	}
	cons := *config.GetDefaultConsensusConfig()
	cons.EnableUpgrade10 = vBool("upgrade10")
	cons.EnableUpgrade12 = vBool("upgrade12")
	cfg := &config.Config{Consensus: &cons}
	height := uint64(500)
	run := func(arbitraryOrder bool) *appstate.AppState {
		app := vC01dBuild(ids, epoch)
		vc := &ValidationCeremony{config: cfg, epoch: epoch, appState: app,
			epochApplyingCache: map[uint64]epochApplyingCache{height: {epochApplyingResult: vals}}}
		vMapOrderNondet(arbitraryOrder)
		vc.ApplyNewEpoch(height, app, nil)
		vMapOrderNondet(false)
		return app
	}
	for rep := 0; rep < vC01dRuns(); rep++ {
		n1, n2 := run(false), run(true) // one node ranges in insertion order, the other in any order
		vC01dCompare(n1, n2, len(ids))
	}
	vCover("end")
}

// natively Go randomises the iteration per range statement: repeat to see two orders
func vC01dRuns() int {
	if vSymbolic() {
		return 1
	}
	return 64
}

func vC01dCompare(n1, n2 *appstate.AppState, n int) {
	for i := 0; i < n; i++ {
		a := state.VAddr(byte(i + 1))
		x, y := n1.State.GetIdentity(a), n2.State.GetIdentity(a)
		vAssert(x.State == y.State && x.Birthday == y.Birthday, "[C01,C17] status and birthday after the epoch do not depend on the map iteration order of the epoch results")
		vAssert(vSameAddrPtr(x.Delegatee(), y.Delegatee()) && vSameAddrPtr(x.PendingUndelegation(), y.PendingUndelegation()) &&
			x.DelegationEpoch == y.DelegationEpoch && x.UndelegationEpoch() == y.UndelegationEpoch(),
			"[C01,C17] delegations after the epoch do not depend on the map iteration order of the epoch results")
		vAssert(x.Stake.Cmp(y.Stake) == 0 && n1.State.GetBalance(a).Cmp(n2.State.GetBalance(a)) == 0,
			"[C01,C17] stakes and balances after the epoch do not depend on the map iteration order of the epoch results")
	}
}

// ---- first evaluation (the loop over epochApplyingValues that ApplyNewEpoch fills itself) ----
// Everything that DECIDES the outcomes (evidence maps, flip and candidate qualification, author analysis,
// scores, the status decision table - C17.a's subject) is replaced by an arbitrary decision per identity;
// what stays real is the assembly of the outcome map and the loops that apply it.

var vC01dNew map[uint32]state.IdentityState

//verif:override c01d (*idena-go/core/appstate.EvidenceMap).CalculateApprovedCandidates vC01dApproved
func vC01dApproved(m *appstate.EvidenceMap, candidates []common.Address, maps [][]byte) []common.Address {
	return candidates
}

//verif:override c01d (*idena-go/core/ceremony.ValidationCeremony).readEvidenceMaps vC01dEvidence
func vC01dEvidence(vc *ValidationCeremony, shardId common.ShardId) [][]byte { return nil }

//verif:override c01d (*idena-go/core/ceremony.qualification).qualifyFlips vC01dQualifyFlips
func vC01dQualifyFlips(q *qualification, total uint, candidates []*candidate, flipsPerCandidate [][]int) ([]FlipQualification, *reportersToReward, map[common.Address]statsTypes.WrongGradeReason) {
	return nil, newReportersToReward(), nil
}

//verif:override c01d (*idena-go/core/ceremony.ValidationCeremony).analyzeAuthors vC01dAnalyzeAuthors
func vC01dAnalyzeAuthors(vc *ValidationCeremony, q []FlipQualification, r *reportersToReward, shardId common.ShardId, cfg *config.ConsensusConf) (map[common.Address]types.BadAuthorReason, map[common.Address]*types.ValidationResult, map[common.Address]*types.AuthorResults, map[common.Address][]int, *reportersToReward) {
	return map[common.Address]types.BadAuthorReason{}, map[common.Address]*types.ValidationResult{}, map[common.Address]*types.AuthorResults{}, map[common.Address][]int{}, r
}

//verif:override c01d (*idena-go/core/ceremony.ValidationCeremony).getNotApprovedFlips vC01dNotApproved
func vC01dNotApproved(vc *ValidationCeremony, approved mapset.Set, shardId common.ShardId) mapset.Set {
	return mapset.NewSet()
}

//verif:override c01d (*idena-go/core/ceremony.qualification).qualifyCandidate vC01dQualifyCandidate
func vC01dQualifyCandidate(q *qualification, c common.Address, m map[int]FlipQualification, flipsToSolve []int, short bool, notApproved mapset.Set) (float32, uint32, map[int]statsTypes.FlipAnswerStats, bool, bool) {
	return 0, 0, nil, false, false
}

//verif:override c01d idena-go/core/ceremony.calculateNewTotalScore vC01dTotalScore
func vC01dTotalScore(scores []byte, shortPoints float32, shortFlipsCount uint32, totalShortPoints float32, totalShortFlipsCount uint32) (float32, uint32) {
	return 0, 0
}

//verif:override c01d idena-go/core/ceremony.determineNewIdentityState vC01dDecide
func vC01dDecide(identity state.Identity, shortScore, longScore, totalScore float32, totalQualifiedFlips uint32, missed, noQualShort, nonQualLong, fix, up10 bool, shortQualifiedFlipsCount uint32, up12 bool) state.IdentityState {
	return vC01dNew[identity.Generation]
}

//verif:override c01d (*idena-go/core/ceremony.ValidationCeremony).shouldInteractWithNetwork vC01dNoNetwork
func vC01dNoNetwork(vc *ValidationCeremony) bool { return false }

//verif:override c01d (*idena-go/core/ceremony.reportersToReward).setValidationResult vC01dReporters
func vC01dReporters(r *reportersToReward, address common.Address, newState state.IdentityState, missed bool, flipsByAuthor map[common.Address][]int, cfg *config.ConsensusConf) {
}

//verif:obligation C01.d.first tier=quick use=c01d covers=bothValidated,end bounds=first-evaluation-of-ApplyNewEpoch,1-shard,2-candidates(A,P)-over-4-identities,delegation-patterns-as-C01.d,arbitrary-decision-per-identity,qualification-stubbed
//verif:obligation C17.c.first tier=quick use=c01d covers=bothValidated,end bounds=same-as-C01.d.first
func H_C01dFirst() {
	epoch := vU16("epoch")
	ids := make([]vC01dId, 4)
	names := []string{"A", "P", "Q", "R"}
	for i := range ids {
		n := names[i]
		d := &ids[i]
		d.st = vU8(n + ".state")
		vAssume(d.st <= 8)
		d.stake, d.repl, d.lock, d.bal = vNN(n+".stake"), vNN(n+".replenished"), vNN(n+".locked"), vNN(n+".balance")
		vAssume(d.repl.Cmp(d.stake) <= 0)
		vAssume(d.lock.Cmp(d.stake) <= 0)
		d.birthday, d.delEpoch, d.undelEpoch = vU16(n+".birthday"), vU16(n+".delegationEpoch"), vU16(n+".undelegationEpoch")
		d.delegatee = vC01dDelegatee(n, i)
		d.pending = vBool(n + ".pendingUndelegation")
	}
	vC01dNew = map[uint32]state.IdentityState{}
	for i := 0; i < 2; i++ {
		ns := vU8(names[i] + ".newState")
		vAssume(ns <= 8)
		vC01dNew[uint32(i+1)] = state.IdentityState(ns)
	}
	if vC01dNew[1].NewbieOrBetter() && vC01dNew[2].NewbieOrBetter() {
		vCover("bothValidated")
	}
	cons := *config.GetDefaultConsensusConfig()
	cons.EnableUpgrade10 = vBool("upgrade10")
	cons.EnableUpgrade12 = vBool("upgrade12")
	cfg := &config.Config{Consensus: &cons}
	height := uint64(500)
	run := func(arbitraryOrder bool) *appstate.AppState {
		app := vC01dBuild(ids, epoch)
		app.EvidenceMap = &appstate.EvidenceMap{}
		sc := &candidatesOfShard{shortFlipsPerCandidate: [][]int{nil, nil}, longFlipsPerCandidate: [][]int{nil, nil}}
		for i := 0; i < 2; i++ {
			sc.candidates = append(sc.candidates, &candidate{Address: state.VAddr(byte(i + 1))})
		}
		vc := &ValidationCeremony{config: cfg, epoch: epoch, appState: app, qualification: &qualification{}, log: log.New(),
			shardCandidates:    map[common.ShardId]*candidatesOfShard{1: sc},
			epochApplyingCache: map[uint64]epochApplyingCache{}}
		vMapOrderNondet(arbitraryOrder)
		vc.ApplyNewEpoch(height, app, nil)
		vMapOrderNondet(false)
		return app
	}
	for rep := 0; rep < vC01dRuns(); rep++ {
		n1, n2 := run(false), run(true) // one node ranges in insertion order, the other in any order
		vC01dCompare(n1, n2, len(ids))
	}
	vCover("end")
}
