package ceremony

import (
	"bytes"

	"github.com/idena-network/idena-go/common"
	"github.com/idena-network/idena-go/core/appstate"
	"github.com/idena-network/idena-go/core/state"
)

func vC16Addr(i int) common.Address {
	var a common.Address
	a[0], a[19] = 0xc0, byte(i+1)
	return a
}

//verif:obligation C16.c tier=quick bounds=4-candidates,author's-recipient-list-of-length<=4(quick)/5(thorough)-with-arbitrary(symbolic)-entries-incl-repeats covers=repeat,recipient,nonrecipient,end
// The link between assignment and key recipients (real PrivateEncryptionKeyCandidates, real
// getPrivateKeyPackageIndex): for EVERY recipient list the lottery could have produced for an author
// (any length up to the bound, any candidate indexes, repeats included) the position a candidate uses to
// extract its key from the author's package is the position at which the author encrypted for that very
// candidate; a candidate outside the list has no position.
func H_C16c() {
	const n = 4
	st := state.VNewStateDB()
	sc := &candidatesOfShard{}
	idx := map[common.Address]int{}
	for i := 0; i < n; i++ {
		a := vC16Addr(i)
		sc.candidates = append(sc.candidates, &candidate{Address: a, PubKey: []byte{0x04, byte(i + 1)}})
		idx[a] = i
		sh := vU8("shard")
		vAssume(sh <= 1) // 0 (pre-sharding identity) and 1 both live in shard 1
		st.VPutIdentity(a, state.Identity{State: state.Newbie, ShardId: common.ShardId(sh)})
	}
	maxLen := 4
	if vThorough() {
		maxLen = 5
	}
	l := vChoice("recipients", maxLen+1)
	author := 0
	per := map[int][]int{}
	var lst []int
	for j := 0; j < l; j++ {
		v := vInt("recipient")
		vAssume(v >= 0)
		vAssume(v < n)
		lst = append(lst, v)
	}
	if l > 0 {
		per[author] = lst
	}
	for j := 1; j < l; j++ {
		if lst[j] == lst[0] {
			vCover("repeat")
		}
	}
	vc := &ValidationCeremony{lottery: &lottery{finished: true}, candidateIndexes: idx, appState: &appstate.AppState{State: st},
		shardCandidates: map[common.ShardId]*candidatesOfShard{1: sc},
		shardLotteries:  map[common.ShardId]*shardAuthors{1: {candidatesPerAuthor: per, authorsPerCandidate: map[int][]int{}}}}

	pubKeys, err := vc.PrivateEncryptionKeyCandidates(vC16Addr(author))
	if l == 0 {
		vAssert(err != nil, "an author without recipients gets an error, not an empty package")
		vCover("end")
		return
	}
	vAssert(err == nil, "an author with recipients gets its recipient key list")
	for c := 0; c < n; c++ {
		in := false
		for j := 0; j < l; j++ {
			in = vOr(in, lst[j] == c)
		}
		pos := vc.getPrivateKeyPackageIndex(vC16Addr(c), vC16Addr(author))
		if in {
			vCover("recipient")
			vAssert(pos >= 0 && pos < len(pubKeys), "a candidate assigned the author's flips has a position inside the author's key package")
			vAssert(pos >= 0 && pos < len(pubKeys) && bytes.Equal(pubKeys[pos], sc.candidates[c].PubKey), "the package entry a candidate extracts is the one the author encrypted for that candidate")
		} else {
			vCover("nonrecipient")
			vAssert(pos == -1, "a candidate that is not a recipient has no position in the author's package")
		}
	}
	// vice versa: every entry of the package is for a candidate of the list
	for k := 0; k < len(pubKeys); k++ {
		ok := false
		for j := 0; j < l; j++ {
			ok = vOr(ok, bytes.Equal(pubKeys[k], sc.candidates[lst[j]].PubKey))
		}
		vAssert(ok, "the author encrypts only for candidates of its recipient list")
	}
	vCover("end")
}

func vHas(s []int, e int) bool {
	for _, x := range s {
		if x == e {
			return true
		}
	}
	return false
}

// vC16Lottery: the real author and flip distribution for one shard of n candidates; rand.Perm is an
// ARBITRARY permutation (every permutation is explored, so what holds here holds for every seed).
func vC16Lottery(n int, topUp bool) {
	quota, perAuthor := 3, 2
	if n == 4 {
		quota, perAuthor = 1, 1 // four candidates (thorough tier): 24 permutations per draw, smaller shard parameters
	}
	if topUp {
		quota, perAuthor = 1, 1 // the top-up pass multiplies the permutations: smaller shard parameters
		if vThorough() {
			quota = 2
		}
	}
	shortCount := vChoice("shortFlipsCount", quota) + 1
	sc := &candidatesOfShard{flipsPerAuthor: map[int][][]byte{}, flipAuthorMap: map[string]common.Address{}}
	authorOf := map[int]int{} // global flip index -> author index
	for i := 0; i < n; i++ {
		c := &candidate{Address: vC16Addr(i), PubKey: []byte{0x04, byte(i + 1)}}
		if vBool("isAuthor") {
			c.IsAuthor = true
			k := vChoice("flipsOfAuthor", perAuthor) + 1
			for f := 0; f < k; f++ {
				cid := []byte{byte(i + 1), byte(f + 1)}
				authorOf[len(sc.flips)] = i
				sc.flips = append(sc.flips, cid)
				sc.flipsPerAuthor[i] = append(sc.flipsPerAuthor[i], cid)
				sc.flipAuthorMap[string(cid)] = c.Address
			}
		}
		sc.candidates = append(sc.candidates, c)
	}
	seed := []byte{1, 2, 3, 4, 5, 6, 7, 8}
	var apc, cpa map[int][]int
	if topUp {
		// the top-up pass that GetAuthorsDistribution runs for more than 7 authors, here on a small shard
		authors := getAuthorsIndexes(sc.candidates)
		if len(authors) == 0 {
			vCover("end")
			return
		}
		apc, cpa = getFirstAuthorsDistribution(authors, sc.candidates, seed, shortCount)
		apc, cpa = appendAdditionalCandidates(seed, sc.candidates, apc, cpa)
		vCover("toppedUp")
	} else {
		l := GetAuthorsDistribution(map[common.ShardId]*candidatesOfShard{1: sc}, seed, shortCount)[1]
		apc, cpa = l.authorsPerCandidate, l.candidatesPerAuthor
	}
	// the two views of the author distribution agree (this is what links flips to key recipients)
	for c := 0; c < n; c++ {
		for a := 0; a < n; a++ {
			vAssert(vHas(apc[c], a) == vHas(cpa[a], c), "an author is listed for a candidate exactly when the candidate is among the author's key recipients")
			if vHas(apc[c], a) {
				vAssert(sc.candidates[a].IsAuthor, "only flip authors are assigned to candidates")
			}
		}
	}
	short, long := GetFlipsDistribution(n, apc, sc.flipsPerAuthor, sc.flips, seed, shortCount)
	vAssert(len(short) == n && len(long) == n, "one short and one long list per candidate")
	for c := 0; c < n; c++ {
		if len(sc.flips) == 0 {
			vCover("noflips")
			vAssert(getFlipsToSolve(vC16Addr(c), sc.candidates, short, sc.flips) == nil && getFlipsToSolve(vC16Addr(c), sc.candidates, long, sc.flips) == nil,
				"no flips are assigned when the shard has none")
			continue
		}
		vCover("flips")
		vAssert(len(short[c]) <= shortCount, "the short session list never exceeds the short-session quota")
		vAssert(len(long[c]) > 0, "every candidate has a non-empty long session list whenever the shard has flips")
		placeholder := len(long[c]) == 1 && long[c][0] == 0 && !vHas(apc[c], authorOf[0])
		if placeholder {
			vCover("placeholder")
		}
		for k, f := range short[c] {
			vAssert(f >= 0 && f < len(sc.flips), "short session: only existing flips are assigned")
			vAssert(!vHas(short[c][:k], f), "short session: a flip is never listed twice for the same candidate")
			vAssert(vHas(apc[c], authorOf[f]) && vHas(cpa[authorOf[f]], c), "short session: the candidate is a key recipient of the author of every flip it is assigned")
		}
		for k, f := range long[c] {
			vAssert(f >= 0 && f < len(sc.flips), "long session: only existing flips are assigned")
			vAssert(!vHas(long[c][:k], f), "long session: a flip is never listed twice for the same candidate")
			if !placeholder {
				vAssert(vHas(apc[c], authorOf[f]) && vHas(cpa[authorOf[f]], c), "long session: the candidate is a key recipient of the author of every flip it is assigned")
			}
		}
		// vice versa: the flips of every author the candidate is a recipient of reach the candidate
		for a := 0; a < n; a++ {
			if vHas(apc[c], a) {
				got := false
				for _, f := range short[c] {
					got = got || authorOf[f] == a
				}
				for _, f := range long[c] {
					got = got || authorOf[f] == a
				}
				vAssert(got, "a candidate that receives an author's key is assigned at least one flip of that author")
			}
		}
	}
	vCover("end")
}

//verif:obligation C16.a tier=quick bounds=1-shard,candidates<=3:any-author-subset,1-2-flips-per-author,short-quota-1..3;thorough-adds-4-candidates-with-1-flip-per-author-and-quota-1;rand.Perm=every-permutation covers=flips,noflips,placeholder,end
func H_C16a() {
	max := 3
	if vThorough() {
		max = 4
	}
	vC16Lottery(vChoice("candidates", max)+1, false)
}

//verif:obligation C16.b tier=quick bounds=top-up-pass(appendAdditionalCandidates)-on-a-small-shard:candidates<=3,any-author-subset,1-flip-per-author,short-quota-1(quick)/1..2(thorough),rand.Perm=every-permutation covers=toppedUp,flips,end
func H_C16b() {
	vC16Lottery(vChoice("candidates", 3)+1, true)
}
