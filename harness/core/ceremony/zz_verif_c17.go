package ceremony

import (
	"github.com/idena-network/idena-go/core/state"
)

func vIsValidatedStatus(s state.IdentityState) bool {
	return s == state.Newbie || s == state.Verified || s == state.Human
}

//verif:obligation C17.a tier=quick bounds=all-float32-scores,all-uint32-counts,all-9-prior-statuses,flips<=2 covers=missed,notflips,invite,killed,undefined,promoted
// determineNewIdentityState (real code) for every float32 score (NaN, +-Inf included), every
// uint32 count, all flags, every prior status and RequiredFlips/len(Flips) in 0..2:
// missed or flips-not-done never yields a validated status, Invite -> Killed, Killed -> Killed,
// Undefined -> Undefined, result is one of the 9 statuses, promotions respect the published thresholds.
func H_C17a() {
	var id state.Identity
	prior := vU8("prior")
	vAssume(prior <= 8)
	id.State = state.IdentityState(prior)
	id.RequiredFlips = vU8("requiredFlips")
	nflips := vChoice("nflips", 3)
	id.Flips = make([]state.IdentityFlip, nflips)
	shortScore, longScore, totalScore := vF32("shortScore"), vF32("longScore"), vF32("totalScore")
	totalFlips := vU32("totalQualifiedFlips")
	missed, noQualShort, nonQualLong := vBool("missed"), vBool("noQualShort"), vBool("nonQualLong")
	fix, up10, up12 := vBool("candidateToNewbieFix"), vBool("upgrade10"), vBool("upgrade12")
	shortFlips := vU32("shortQualifiedFlipsCount")

	res := determineNewIdentityState(id, shortScore, longScore, totalScore, totalFlips, missed, noQualShort, nonQualLong, fix, up10, shortFlips, up12)

	vAssert(uint8(res) <= 8, "result is one of the nine statuses")
	flipsDone := uint8(nflips) >= id.RequiredFlips
	if !flipsDone {
		vCover("notflips")
		vAssert(!vIsValidatedStatus(res), "identity lacking required flips is never left validated")
	}
	if missed {
		vCover("missed")
		vAssert(!vIsValidatedStatus(res), "identity that missed the session is never promoted or left validated")
	}
	switch id.State {
	case state.Invite:
		vCover("invite")
		vAssert(res == state.Killed, "non-activated invitation is terminated")
	case state.Killed:
		vCover("killed")
		vAssert(res == state.Killed, "terminated identity never comes back")
	case state.Undefined:
		vCover("undefined")
		vAssert(res == state.Undefined || res == state.Killed, "undefined identity never comes back")
	}
	// published thresholds for promotions
	if res == state.Human && id.State != state.Human {
		vCover("promoted")
		vAssert(totalFlips >= 24 && totalScore >= 0.92, "promotion to Human needs >=24 qualified flips and total score >= 0.92")
		vAssert(id.State == state.Verified || id.State == state.Suspended || id.State == state.Zombie, "Human only from Verified/Suspended/Zombie")
	}
	if res == state.Verified && id.State == state.Newbie {
		vAssert(totalFlips >= 13 && totalScore >= 0.75, "Newbie->Verified needs >=13 qualified flips and total score >= 0.75")
	}
	if res == state.Newbie {
		vAssert(id.State == state.Candidate || id.State == state.Newbie, "Newbie only from Candidate or Newbie")
	}
	if res == state.Candidate {
		vAssert(id.State == state.Candidate && !up10 && !fix, "Candidate stays Candidate only in the legacy rule")
	}
	if res == state.Zombie {
		vAssert(id.State == state.Suspended && missed || id.State == state.Zombie && !up10 && !missed, "Zombie only from a missed Suspended (or legacy Zombie hold)")
	}
	if res == state.Suspended {
		vAssert(id.State == state.Verified || id.State == state.Human || id.State == state.Suspended && !up10 && !missed, "Suspended only from Verified/Human (or legacy hold)")
	}
	// NaN scores never validate anyone who needs a score
	vCover("end")
}
