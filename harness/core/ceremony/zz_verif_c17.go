package ceremony

import (
	"github.com/idena-network/idena-go/common"
	"github.com/idena-network/idena-go/core/state"
	"github.com/idena-network/idena-go/database"
)

func vIsValidatedStatus(s state.IdentityState) bool {
	return s == state.Newbie || s == state.Verified || s == state.Human
}

//verif:obligation C17.a tier=quick bounds=all-float32-scores,all-uint32-counts,all-9-prior-statuses,flips<=2 covers=missed,notflips,invite,killed,undefined,promoted
// determineNewIdentityState (real code) for every float32 score (NaN, +-Inf included), every
// uint32 count, all flags, every prior status and RequiredFlips/len(Flips) in 0..2:
// missed or flips-not-done never yields a validated status, Invite -> Killed, Killed -> Killed,
// Undefined -> Undefined, result is one of the 9 statuses, promotions respect the published thresholds.
func H_C17a() {
	var id state.Identity
	prior := vU8("prior")
	vAssume(prior <= 8)
	id.State = state.IdentityState(prior)
	id.RequiredFlips = vU8("requiredFlips")
	nflips := vChoice("nflips", 3)
	id.Flips = make([]state.IdentityFlip, nflips)
	shortScore, longScore, totalScore := vF32("shortScore"), vF32("longScore"), vF32("totalScore")
	totalFlips := vU32("totalQualifiedFlips")
	missed, noQualShort, nonQualLong := vBool("missed"), vBool("noQualShort"), vBool("nonQualLong")
	fix, up10, up12 := vBool("candidateToNewbieFix"), vBool("upgrade10"), vBool("upgrade12")
	shortFlips := vU32("shortQualifiedFlipsCount")

	res := determineNewIdentityState(id, shortScore, longScore, totalScore, totalFlips, missed, noQualShort, nonQualLong, fix, up10, shortFlips, up12)

	vAssert(uint8(res) <= 8, "result is one of the nine statuses")
	flipsDone := uint8(nflips) >= id.RequiredFlips
	if !flipsDone {
		vCover("notflips")
		vAssert(!vIsValidatedStatus(res), "identity lacking required flips is never left validated")
	}
	if missed {
		vCover("missed")
		vAssert(!vIsValidatedStatus(res), "identity that missed the session is never promoted or left validated")
	}
	switch id.State {
	case state.Invite:
		vCover("invite")
		vAssert(res == state.Killed, "non-activated invitation is terminated")
	case state.Killed:
		vCover("killed")
		vAssert(res == state.Killed, "terminated identity never comes back")
	case state.Undefined:
		vCover("undefined")
		vAssert(res == state.Undefined || res == state.Killed, "undefined identity never comes back")
	}
	// published thresholds for promotions
	if res == state.Human && id.State != state.Human {
		vCover("promoted")
		vAssert(totalFlips >= 24 && totalScore >= 0.92, "promotion to Human needs >=24 qualified flips and total score >= 0.92")
		vAssert(id.State == state.Verified || id.State == state.Suspended || id.State == state.Zombie, "Human only from Verified/Suspended/Zombie")
	}
	if res == state.Verified && id.State == state.Newbie {
		vAssert(totalFlips >= 13 && totalScore >= 0.75, "Newbie->Verified needs >=13 qualified flips and total score >= 0.75")
	}
	if res == state.Newbie {
		vAssert(id.State == state.Candidate || id.State == state.Newbie, "Newbie only from Candidate or Newbie")
	}
	if res == state.Candidate {
		vAssert(id.State == state.Candidate && !up10 && !fix, "Candidate stays Candidate only in the legacy rule")
	}
	if res == state.Zombie {
		vAssert(id.State == state.Suspended && missed || id.State == state.Zombie && !up10 && !missed, "Zombie only from a missed Suspended (or legacy Zombie hold)")
	}
	if res == state.Suspended {
		vAssert(id.State == state.Verified || id.State == state.Human || id.State == state.Suspended && !up10 && !missed, "Suspended only from Verified/Human (or legacy hold)")
	}
	// NaN scores never validate anyone who needs a score
	vCover("end")
}

// ---- C17.d: answers bookkeeping survives a restart ----

var vEpochShort, vEpochLong []database.DbAnswer
var vEpochWrites int

//verif:override epochdb (*idena-go/database.EpochDb).WriteAnswers vWriteAnswers
func vWriteAnswers(edb *database.EpochDb, short []database.DbAnswer, long []database.DbAnswer) {
	vEpochWrites++
	vEpochShort = append([]database.DbAnswer{}, short...)
	vEpochLong = append([]database.DbAnswer{}, long...)
}

//verif:override epochdb (*idena-go/database.EpochDb).ReadAnswers vReadAnswers
func vReadAnswers(edb *database.EpochDb) (short []database.DbAnswer, long []database.DbAnswer) {
	return vEpochShort, vEpochLong
}

func vSameAnswers(a, b map[common.Address][]byte) bool {
	if len(a) != len(b) {
		return false
	}
	for k, v := range a {
		w, ok := b[k]
		if !ok || string(v) != string(w) {
			return false
		}
	}
	return true
}

//verif:obligation C17.d tier=quick use=epochdb bounds=2-senders,<=3-events-from-add/remove(short|long)-each-followed-by-persist-as-the-block-and-reset-handlers-do covers=added,removed,firstWins
// qualification.addAnswers / removeAnswers / persist / restore (real code; EpochDb as an ideal store):
// answers are first-write-wins, and after every handler step (event + persist) a node restarted from the
// epoch database holds exactly the answers of the node that kept running - in particular answers of a
// reverted transaction do not come back after a restart.
func H_C17d() {
	vEpochShort, vEpochLong, vEpochWrites = nil, nil, 0
	q := NewQualification(nil, &database.EpochDb{})
	var a, b common.Address
	a[19], b[19] = 1, 2
	senders := []common.Address{a, b}
	n := 1 + vChoice("events", 3)
	for i := 0; i < n; i++ {
		short := vBool("ev.short")
		who := senders[vChoice("ev.sender", 2)]
		m := q.longAnswers
		if short {
			m = q.shortAnswers
		}
		prev, had := m[who]
		if vBool("ev.remove") {
			vCover("removed")
			q.removeAnswers(short, who) // BlockchainResetEvent handler: a reverted answers transaction
			_, still := m[who]
			vAssert(!still, "answers of a reverted transaction are forgotten")
		} else {
			vCover("added")
			payload := []byte{vU8("ev.payload")}
			q.addAnswers(short, who, payload) // new block with an answers transaction
			if had {
				vCover("firstWins")
				vAssert(string(m[who]) == string(prev), "answers are first-write-wins")
			} else {
				vAssert(string(m[who]) == string(payload), "first answers of a sender are recorded")
			}
		}
		q.persist() // both handlers persist right after the change
		// restart: a fresh qualification restored from the epoch database
		r := NewQualification(nil, &database.EpochDb{})
		r.restore()
		vAssert(vSameAnswers(q.shortAnswers, r.shortAnswers) && vSameAnswers(q.longAnswers, r.longAnswers),
			"a node restarted after this step holds exactly the answers of the node that kept running")
	}
	vCover("end")
}
