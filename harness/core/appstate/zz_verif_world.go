package appstate

import (
	"math/big"
	"unsafe"

	"github.com/idena-network/idena-go/blockchain/types"
	"github.com/idena-network/idena-go/common"
	"github.com/idena-network/idena-go/core/state"
	"github.com/idena-network/idena-go/core/validators"
	"github.com/ipfs/go-cid"
)

// VWorld is the symbolic pre-state of the one-step harness H_step (DESIGN §4): a StateDB and an
// IdentityStateDB over mock trees whose live-object maps are pre-populated with symbolic
// accounts/identities for a handful of distinct concrete addresses, a symbolic global object,
// a symbolic view of the validators cache (per-address named inputs) and one transaction.
type VWorld struct {
	App        *AppState
	S, T, G, F common.Address
	Tx         *types.Transaction
	TxSize     int
	PubKeyAddr common.Address
	PubKeyErr  bool

	vcValidated, vcPool, vcOnline, vcDiscriminated map[byte]bool
	vcPoolSize                                       map[byte]int
	vcDelegator                                      map[byte]common.Address
	NetworkSize, OnlineSize, ValidatorsSize          int
}

var VW *VWorld
var VNoNilAmounts bool
var vNames = []string{"S", "T", "G", "F"}

func vIdx(a common.Address) byte {
	ok := a[0] == 0xa0
	for i := 1; i < 19; i++ {
		ok = vAnd(ok, a[i] == 0)
	}
	ok = vAnd(ok, vAnd(a[19] >= 1, a[19] <= 4))
	return byte(vConcretize(int(vIte64(ok, uint64(a[19]), 0)), 0, 8))
}

func vNonNegBig(name string) *big.Int {
	b := vBig(name)
	vAssume(b.Sign() >= 0)
	return b
}

// vOptNonNegBig: nil or a non-negative integer; nil-ness is symbolic (no fork until dereferenced).
func vOptNonNegBig(name string) *big.Int {
	return (*big.Int)(vNilIf(vBool(name+".nil"), unsafe.Pointer(vNonNegBig(name))))
}

func vOptBigAny(name string) *big.Int {
	return (*big.Int)(vNilIf(vBool(name+".nil"), unsafe.Pointer(vBig(name))))
}

// VBuildWorld creates the symbolic pre-state: global object now, everything per-address lazily.
func VBuildWorld(shape state.VShape) *VWorld {
	w := &VWorld{S: state.VAddr(1), T: state.VAddr(2), G: state.VAddr(3), F: state.VAddr(4),
		vcValidated: map[byte]bool{}, vcPool: map[byte]bool{}, vcOnline: map[byte]bool{}, vcDiscriminated: map[byte]bool{},
		vcPoolSize: map[byte]int{}, vcDelegator: map[byte]common.Address{}}
	VW = w
	st := state.VNewStateDB()
	ist := state.VNewIdentityStateDB()
	w.App = &AppState{State: st, IdentityState: ist, ValidatorsCache: &validators.ValidatorsCache{}, defaultTree: true}

	var g state.Global
	g.Epoch = vU16("global.epoch")
	vp := vU32("global.validationPeriod")
	vAssume(vp <= 4)
	g.ValidationPeriod = state.ValidationPeriod(vp)
	// god is the sender, the recipient or a third address (symbolic, no fork)
	godIdx := vU8("global.godIs")
	vAssume(godIdx >= 1)
	vAssume(godIdx <= 3)
	g.GodAddress = state.VAddr(0)
	g.GodAddress[19] = godIdx
	g.FeePerGas = vOptNonNegBig("global.feePerGas")
	g.GodAddressInvites = vU16("global.godAddressInvites")
	g.EpochBlock = vU64("global.epochBlock")
	sn := vU32("global.shardsNum")
	vAssume(sn >= 1)
	vAssume(sn <= 2)
	g.ShardsNum = sn
	g.ShardSizes = map[common.ShardId]uint32{1: vU32("global.shardSize1"), 2: vU32("global.shardSize2")}
	g.EmptyBlocksByShards = map[common.ShardId][]common.Address{} // never nil: Global.FromBytes / createGlobal always allocate it
	g.DiscriminationStakeThreshold = vOptNonNegBig("global.discriminationStakeThreshold")
	g.NextValidationTime = vI64("global.nextValidationTime")
	st.VPutGlobal(g)
	state.VLazyReset(vNames, g.Epoch, shape)

	w.NetworkSize = vInt("vc.networkSize")
	w.OnlineSize = vInt("vc.onlineSize")
	w.ValidatorsSize = vInt("vc.validatorsSize")
	vAssume(w.NetworkSize >= 0)
	vAssume(w.NetworkSize <= 1<<24)
	vAssume(w.OnlineSize >= 0)
	vAssume(w.OnlineSize <= w.NetworkSize)
	vAssume(w.ValidatorsSize >= 0)
	vAssume(w.ValidatorsSize <= w.NetworkSize)
	return w
}

// VBuildTx: an arbitrary transaction of the given type signed by S.
func (w *VWorld) VBuildTx(txType types.TxType) *types.Transaction {
	tx := &types.Transaction{Type: txType, AccountNonce: vU32("tx.nonce"), Epoch: vU16("tx.epoch")}
	// recipient: absent (symbolic nil-ness), or symbolically the zero address / S / T / G / F
	{
		b := vU8("tx.to")
		vAssume(b <= 4)
		a := state.VAddr(0)
		a[19] = b
		if b == 0 {
			a = common.Address{}
		}
		tx.To = (*common.Address)(vNilIf(vBool("tx.to.nil"), unsafe.Pointer(&a)))
	}
	// sign arbitrary: rejecting negatives is the validator's job
	if VNoNilAmounts {
		// nil and zero amounts are equivalent for the arithmetic properties; nil-ness itself is C12's subject
		tx.Amount, tx.MaxFee, tx.Tips = vBig("tx.amount"), vBig("tx.maxFee"), vBig("tx.tips")
	} else {
		tx.Amount = vOptBigAny("tx.amount")
		tx.MaxFee = vOptBigAny("tx.maxFee")
		tx.Tips = vOptBigAny("tx.tips")
	}
	types.VSetSender(tx, w.S)
	var h common.Hash
	h[0] = 0x77
	types.VSetHash(tx, h)
	w.TxSize = 100 + int(vU8("tx.sizeMinus100")) // encoded size in [100, 355] bytes
	w.Tx = tx
	return tx
}

// ---- overrides (set "world") ----

//verif:override world (*idena-go/blockchain/types.Transaction).Size VTxSize
func VTxSize(tx *types.Transaction) int { return VW.TxSize }

//verif:override world idena-go/crypto.PubKeyBytesToAddress VPubKeyBytesToAddress
func VPubKeyBytesToAddress(b []byte) (common.Address, error) {
	if VW.PubKeyErr {
		return common.Address{}, errPubKey
	}
	return VW.PubKeyAddr, nil
}

var errPubKey = vErr("invalid public key")

type vError string

func (e vError) Error() string { return string(e) }
func vErr(s string) error      { return vError(s) }

//verif:override world (*idena-go/core/validators.ValidatorsCache).NetworkSize VVcNetworkSize
func VVcNetworkSize(v *validators.ValidatorsCache) int { return VW.NetworkSize }

//verif:override world (*idena-go/core/validators.ValidatorsCache).OnlineSize VVcOnlineSize
func VVcOnlineSize(v *validators.ValidatorsCache) int { return VW.OnlineSize }

//verif:override world (*idena-go/core/validators.ValidatorsCache).ValidatorsSize VVcValidatorsSize
func VVcValidatorsSize(v *validators.ValidatorsCache) int { return VW.ValidatorsSize }

func vLazyBool(m map[byte]bool, name string, a common.Address) bool {
	i := vIdx(a)
	if i == 0 {
		return false
	}
	if v, ok := m[i]; ok {
		return v
	}
	v := vBool(name + "." + vNames[i-1])
	m[i] = v
	return v
}

//verif:override world (*idena-go/core/validators.ValidatorsCache).IsValidated VVcIsValidated
func VVcIsValidated(v *validators.ValidatorsCache, a common.Address) bool {
	return vLazyBool(VW.vcValidated, "vc.validated", a)
}

//verif:override world (*idena-go/core/validators.ValidatorsCache).IsPool VVcIsPool
func VVcIsPool(v *validators.ValidatorsCache, a common.Address) bool {
	return vLazyBool(VW.vcPool, "vc.pool", a)
}

//verif:override world (*idena-go/core/validators.ValidatorsCache).IsOnlineIdentity VVcIsOnline
func VVcIsOnline(v *validators.ValidatorsCache, a common.Address) bool {
	return vLazyBool(VW.vcOnline, "vc.online", a)
}

//verif:override world (*idena-go/core/validators.ValidatorsCache).IsDiscriminated VVcIsDiscriminated
func VVcIsDiscriminated(v *validators.ValidatorsCache, a common.Address) bool {
	return vLazyBool(VW.vcDiscriminated, "vc.discriminated", a)
}

//verif:override world (*idena-go/core/validators.ValidatorsCache).PoolSize VVcPoolSize
func VVcPoolSize(v *validators.ValidatorsCache, a common.Address) int {
	i := vIdx(a)
	if i == 0 || !VVcIsPool(v, a) {
		return 0
	}
	if n, ok := VW.vcPoolSize[i]; ok {
		return n
	}
	n := vInt("vc.poolSize." + vNames[i-1])
	vAssume(n >= 1)
	vAssume(n <= 1<<20)
	VW.vcPoolSize[i] = n
	return n
}

//verif:override world (*idena-go/core/validators.ValidatorsCache).PoolSizeExceptNodes VVcPoolSizeExcept
func VVcPoolSizeExcept(v *validators.ValidatorsCache, a common.Address, except []common.Address) int {
	return VVcPoolSize(v, a)
}

//verif:override world (*idena-go/core/validators.ValidatorsCache).Delegator VVcDelegator
func VVcDelegator(v *validators.ValidatorsCache, a common.Address) common.Address {
	i := vIdx(a)
	if i == 0 {
		return common.Address{}
	}
	if d, ok := VW.vcDelegator[i]; ok {
		return d
	}
	b := vU8("vc.delegator." + vNames[i-1])
	vAssume(b <= 4)
	d := state.VAddr(0)
	d[19] = b
	if b == 0 {
		d = common.Address{}
	}
	VW.vcDelegator[i] = d
	return d
}

//verif:override world (*idena-go/core/validators.ValidatorsCache).FindSubIdentity VVcFindSubIdentity
func VVcFindSubIdentity(v *validators.ValidatorsCache, pool common.Address, nonce uint32) (common.Address, uint32) {
	return pool, 1
}

// ---- third-party parsers: arbitrary verdict (symbolic only; natively the real parser runs) ----

//verif:override world github.com/ipfs/go-cid.Cast VCidCast
func VCidCast(data []byte) (cid.Cid, error) {
	if vBool("cid.parseFails") {
		return cid.Undef, vErr("invalid cid")
	}
	return cid.Undef, nil
}

//verif:override world github.com/ipfs/go-cid.Parse VCidParse
func VCidParse(v interface{}) (cid.Cid, error) {
	if vBool("cid.parseFails") {
		return cid.Undef, vErr("invalid cid")
	}
	return cid.Undef, nil
}
