package mempool

import (
	"math/big"
	"sync"

	"github.com/idena-network/idena-go/blockchain/types"
	"github.com/idena-network/idena-go/common"
	"github.com/idena-network/idena-go/config"
	"github.com/idena-network/idena-go/core/appstate"
	"github.com/idena-network/idena-go/core/state"
	"github.com/idena-network/idena-go/core/validators"
	"github.com/idena-network/idena-go/log"
	"github.com/idena-network/idena-go/stats/collector"
)

// vExecutableInvariant: the representation invariant of the pool's executable lists that C14.b relies on -
// per sender consecutive nonces of the current epoch continuing from the committed state.
func vExecutableInvariant(pool *TxPool, sender common.Address, committed uint32, epoch uint16) bool {
	lst, ok := pool.executableTxs[sender]
	if !ok {
		return true
	}
	okAll := len(lst.txs) > 0
	next := committed + 1
	for _, tx := range lst.txs {
		okAll = vAnd(okAll, vAnd(tx.AccountNonce == next, tx.Epoch == epoch))
		next++
	}
	return okAll
}

//verif:obligation C14.a tier=quick covers=executable,pending,end bounds=1-sender-with-0..2-executable-transactions(invariant-assumed),committed-nonce-and-epoch-symbolic,submitted-transaction-with-symbolic-nonce-and-epoch-past|current|next,default-limits
// One submission (real TxPool.put: executable vs pending placement, sortedTxs.Add, txMap) from any pool state that
// satisfies the invariant: the invariant still holds (so the list offered to a proposer stays consecutive), an
// accepted transaction is retrievable, it is executable exactly when it is the sender's next nonce of this epoch.
func H_C14a() {
	st := state.VNewStateDB()
	epoch := uint16(5)
	st.VPutGlobal(state.Global{Epoch: epoch, FeePerGas: big.NewInt(0), EmptyBlocksByShards: map[common.ShardId][]common.Address{}, ShardSizes: map[common.ShardId]uint32{}})
	cons := *config.GetDefaultConsensusConfig()
	cfg := &config.Config{Consensus: &cons, Mempool: config.GetDefaultMempoolConfig()}
	app := &appstate.AppState{State: st, ValidatorsCache: &validators.ValidatorsCache{}, NonceCache: state.VNewNonceCache(st)}
	pool := &TxPool{all: newTxMap(-1), shortHashAll: newShortHashTxMap(), txSyncCounts: map[common.Hash]int{}, executableTxs: map[common.Address]*sortedTxs{},
		pendingTxs: map[common.Address]*txMap{}, mutex: &sync.Mutex{}, appState: app, cfg: cfg, mempoolCfg: cfg.Mempool, statsCollector: collector.NewStatsCollector(), log: log.New()}
	sender := vSender(0)
	accNonce, accEpoch := uint32(vU8("acc.nonce")), epoch-uint16(vChoice("acc.epochAge", 2))
	st.VPutAccount(sender, state.Account{Nonce: accNonce, Epoch: accEpoch})
	committed := accNonce
	if accEpoch < epoch {
		committed = 0
	}
	n := vChoice("executable", 3)
	if n > 0 {
		lst := newSortedTxs(cfg.Mempool.TxPoolAddrExecutableLimit)
		for k := 0; k < n; k++ {
			tx := &types.Transaction{Type: types.SendTx, AccountNonce: committed + uint32(k) + 1, Epoch: epoch}
			types.VSetSender(tx, sender)
			types.VSetHash(tx, common.Hash{1, byte(k + 1)})
			types.VSetHash128(tx, common.Hash128{1, byte(k + 1)})
			lst.txs = append(lst.txs, tx)
			pool.all.Add(tx)
			pool.shortHashAll.Add(tx)
		}
		pool.executableTxs[sender] = lst
	}
	vAssume(vExecutableInvariant(pool, sender, committed, epoch))
	tx := &types.Transaction{Type: types.SendTx, AccountNonce: uint32(vU8("tx.nonce")), Epoch: epoch - 1 + uint16(vChoice("tx.epoch", 3))}
	types.VSetSender(tx, sender)
	types.VSetHash(tx, common.Hash{2})
	types.VSetHash128(tx, common.Hash128{2})

	pool.mutex.Lock()
	err := pool.put(tx)
	pool.mutex.Unlock()

	vAssert(vExecutableInvariant(pool, sender, committed, epoch), "a submission keeps every sender's executable list consecutive from the committed nonce within the current epoch")
	isNext := vAnd(tx.Epoch == epoch, tx.AccountNonce == committed+uint32(n)+1)
	inExecutable := false
	if lst, ok := pool.executableTxs[sender]; ok {
		for _, t := range lst.txs {
			inExecutable = inExecutable || t == tx
		}
	}
	if err == nil {
		_, byHash := pool.all.Get(tx.Hash())
		_, byShort := pool.shortHashAll.Get(tx.Hash128())
		vAssert(byHash && byShort, "an accepted transaction is retrievable by both hashes")
		if inExecutable {
			vCover("executable")
			vAssert(isNext, "only the sender's next nonce of the current epoch becomes executable")
		} else {
			vCover("pending")
			vAssert(!isNext, "the sender's next nonce of the current epoch is executable, not queued")
			p, ok := pool.pendingTxs[sender]
			stored := false
			if ok {
				_, stored = p.Get(tx.Hash())
			}
			vAssert(stored, "an accepted out-of-order transaction is queued")
		}
	} else {
		vCover("rejected")
		vAssert(!inExecutable, "a rejected transaction is not placed")
	}
	vCover("end")
}
