package mempool

import (
	"math/big"
	"sync"

	"github.com/idena-network/idena-go/blockchain/types"
	"github.com/idena-network/idena-go/blockchain/validation"
	"github.com/idena-network/idena-go/common"
	"github.com/idena-network/idena-go/config"
	"github.com/idena-network/idena-go/core/appstate"
	"github.com/idena-network/idena-go/core/state"
)

// Per-transaction environment: encoded size (gas = 10 * size) and the fee verdict are arbitrary.
var vC14Size = map[*types.Transaction]int{}
var vC14FeeOK = map[*types.Transaction]bool{}

//verif:override c14 (*idena-go/blockchain/types.Transaction).Size vC14TxSize
func vC14TxSize(tx *types.Transaction) int { return vC14Size[tx] }

//verif:override c14 idena-go/blockchain/validation.ValidateFee vC14ValidateFee
func vC14ValidateFee(app *appstate.AppState, tx *types.Transaction, txType validation.TxType, minFeePerGas *big.Int) error {
	if !vC14FeeOK[tx] {
		return validation.BigFee
	}
	return nil
}

func vSender(i int) common.Address {
	var a common.Address
	a[0], a[19] = 0xa0, byte(i+1)
	return a
}

//verif:obligation C14.b tier=quick use=c14 bounds=2-senders,<=2-executable-transactions-each(consecutive-nonces),types-regular|ceremony(priority),sizes-symbolic<=400000-bytes,fee-verdict-arbitrary covers=priority,atCap,built
// createBuildingContext + addPriorityTxsToBlock + addTxsToBlock (real code) from any pool whose executable
// lists satisfy the pool invariant: the list offered to a proposer has per-sender consecutive nonces
// continuing from the committed state, no duplicates, only current-epoch transactions, and its total gas
// respects the block gas cap; no index panic in the priority-chain walk.
func H_C14b() {
	st := state.VNewStateDB()
	epoch := vU16("epoch")
	st.VPutGlobal(state.Global{Epoch: epoch, FeePerGas: big.NewInt(0), EmptyBlocksByShards: map[common.ShardId][]common.Address{}, ShardSizes: map[common.ShardId]uint32{}})
	cons := *config.GetDefaultConsensusConfig()
	cons.EnableUpgrade10, cons.EnableUpgrade11 = true, vBool("upgrade11")
	pool := &TxPool{executableTxs: map[common.Address]*sortedTxs{}, pendingTxs: map[common.Address]*txMap{}, mutex: &sync.Mutex{},
		appState: &appstate.AppState{State: st}, cfg: &config.Config{Consensus: &cons}, mempoolCfg: config.GetDefaultMempoolConfig()}
	vC14Size, vC14FeeOK = map[*types.Transaction]int{}, map[*types.Transaction]bool{}
	committed := map[common.Address]uint32{}
	var all []*types.Transaction
	for s := 0; s < 2; s++ {
		sender := vSender(s)
		nonce := uint32(vU8("acc.nonce"))
		accEpoch := vU16("acc.epoch")
		vAssume(accEpoch <= epoch)
		st.VPutAccount(sender, state.Account{Nonce: nonce, Epoch: accEpoch})
		cur := nonce
		if accEpoch < epoch {
			cur = 0
		}
		committed[sender] = cur
		n := vChoice("executable", 3)
		if n == 0 {
			continue
		}
		lst := newSortedTxs(0)
		for k := 0; k < n; k++ {
			t := types.TxType(types.SendTx)
			if vBool("tx.ceremony") {
				t = types.SubmitShortAnswersTx
				vCover("priority")
			}
			tx := &types.Transaction{Type: t, AccountNonce: cur + uint32(k) + 1, Epoch: epoch}
			types.VSetSender(tx, sender)
			var h common.Hash
			h[0], h[1] = byte(s+1), byte(k+1)
			types.VSetHash(tx, h)
			sz := vU32("tx.size")
			vAssume(sz >= 100)
			vAssume(sz <= 400000)
			vC14Size[tx] = int(sz)
			vC14FeeOK[tx] = vBool("tx.feeOK")
			lst.txs = append(lst.txs, tx) // pool invariant: consecutive nonces of the current epoch
			all = append(all, tx)
		}
		pool.executableTxs[sender] = lst
	}
	maxGas := types.MaxBlockSize(cons.EnableUpgrade11)

	res := pool.BuildBlockTransactions()

	if len(res) > 0 {
		vCover("built")
	}
	gas := uint64(0)
	next := map[common.Address]uint32{}
	for a, c := range committed {
		next[a] = c
	}
	seen := map[*types.Transaction]bool{}
	for _, tx := range res {
		vAssert(!seen[tx], "no transaction is offered twice")
		seen[tx] = true
		sender, _ := types.Sender(tx)
		vAssert(tx.Epoch == epoch, "only transactions of the current epoch are offered")
		vAssert(tx.AccountNonce == next[sender]+1, "per sender the offered nonces are consecutive and continue from the committed state")
		next[sender] = tx.AccountNonce
		vAssert(vC14FeeOK[tx], "only transactions that pass the in-block fee check are offered")
		gas += uint64(vC14Size[tx] * 10)
	}
	if gas+1000 > maxGas {
		vCover("atCap")
	}
	vAssert(gas <= maxGas, "the offered list respects the block gas cap")
	vCover("end")
}
