package mempool

import (
	"bytes"
	"crypto/ecdsa"
	"errors"
	"io"
	"math/big"

	"github.com/idena-network/idena-go/crypto/ecies"
)

// C16.d: the key package (real EncryptPrivateKeysPackage, keysArray encoding, getEncryptedKeyFromPackage)
// over an IDEAL cipher: a ciphertext opens exactly under the key pair it was made for and yields exactly the
// plaintext. What is decided is the package layout: entry i is the one for recipient i, also when some
// recipient keys are malformed (their entries stay in place, empty), and an index past the end is refused.

//verif:override c16d idena-go/crypto.UnmarshalPubkey vC16UnmarshalPubkey
func vC16UnmarshalPubkey(pub []byte) (*ecdsa.PublicKey, error) {
	if len(pub) != 2 || pub[0] != 4 {
		return nil, errors.New("invalid secp256k1 public key")
	}
	return &ecdsa.PublicKey{X: big.NewInt(int64(pub[1]))}, nil
}

//verif:override c16d idena-go/crypto/ecies.ImportECDSAPublic vC16ImportPub
func vC16ImportPub(pub *ecdsa.PublicKey) *ecies.PublicKey { return &ecies.PublicKey{X: pub.X} }

//verif:override c16d (*idena-go/crypto/ecies.PrivateKey).ExportECDSA vC16ExportECDSA
func vC16ExportECDSA(prv *ecies.PrivateKey) *ecdsa.PrivateKey { return &ecdsa.PrivateKey{D: prv.D} }

//verif:override c16d idena-go/crypto.FromECDSA vC16FromECDSA
func vC16FromECDSA(priv *ecdsa.PrivateKey) []byte { return []byte{byte(priv.D.Int64())} }

//verif:override c16d idena-go/crypto/ecies.Encrypt vC16Encrypt
func vC16Encrypt(rand io.Reader, pub *ecies.PublicKey, m, s1, s2 []byte) ([]byte, error) {
	// the ciphertext is a handle (key identity, serial number); the plaintext is kept in the cipher's table
	vC16Plain = append(vC16Plain, m)
	return []byte{byte(pub.X.Int64()), byte(len(vC16Plain))}, nil
}

var vC16Plain [][]byte

//verif:override c16d (*idena-go/crypto/ecies.PrivateKey).Decrypt vC16Decrypt
func vC16Decrypt(prv *ecies.PrivateKey, c, s1, s2 []byte) ([]byte, error) {
	if len(c) != 2 || c[0] != byte(prv.PublicKey.X.Int64()) || c[1] == 0 || int(c[1]) > len(vC16Plain) {
		return nil, errors.New("ecies: invalid message")
	}
	return vC16Plain[c[1]-1], nil
}

func vC16Key(id byte, secret int64) *ecies.PrivateKey {
	return &ecies.PrivateKey{PublicKey: ecies.PublicKey{X: big.NewInt(int64(id))}, D: big.NewInt(secret)}
}

//verif:obligation C16.d tier=quick use=c16d bounds=<=3-recipients(quick)/4(thorough),each-recipient-key-valid-or-malformed,symbolic-key-identities,any-index-0..len covers=valid,malformed,pastEnd,end
func H_C16d() {
	max := 3
	if vThorough() {
		max = 4
	}
	vC16Plain = nil
	publicFlipKey, privateFlipKey := vC16Key(200, 1), vC16Key(201, 77)
	l := vChoice("recipients", max+1)
	var pubKeys [][]byte
	ids := make([]byte, l)
	valid := make([]bool, l)
	for j := 0; j < l; j++ {
		ids[j] = vU8("recipient.id")
		vAssume(ids[j] >= 1)
		vAssume(ids[j] <= 100)
		valid[j] = vBool("recipient.keyValid")
		if valid[j] {
			pubKeys = append(pubKeys, []byte{4, ids[j]})
		} else {
			pubKeys = append(pubKeys, []byte{1})
		}
	}
	pkg := EncryptPrivateKeysPackage(publicFlipKey, privateFlipKey, pubKeys)
	i := vChoice("index", max+1)
	enc, err := getEncryptedKeyFromPackage(publicFlipKey, pkg, i)
	if i >= l {
		vCover("pastEnd")
		vAssert(err != nil, "an index past the end of the package is refused")
		vCover("end")
		return
	}
	vAssert(err == nil, "an index inside the package is served")
	if !valid[i] {
		vCover("malformed")
		vAssert(len(enc) == 0, "the entry of a recipient with a malformed key is empty and stays in place")
		vCover("end")
		return
	}
	vCover("valid")
	dec, derr := vC16Key(ids[i], 5).Decrypt(enc, nil, nil)
	vAssert(derr == nil && bytes.Equal(dec, []byte{77}), "recipient i extracts entry i and decrypts the author's private flip key from it")
	other := vU8("nonRecipient.id")
	vAssume(other >= 1)
	vAssume(other != ids[i])
	_, oerr := vC16Key(other, 6).Decrypt(enc, nil, nil)
	vAssert(oerr != nil, "a non-recipient cannot decrypt the entry")
	vCover("end")
}
