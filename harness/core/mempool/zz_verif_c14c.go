package mempool

import (
	"errors"
	"math/big"
	"sync"

	"github.com/idena-network/idena-go/blockchain/types"
	"github.com/idena-network/idena-go/blockchain/validation"
	"github.com/idena-network/idena-go/common"
	"github.com/idena-network/idena-go/config"
	"github.com/idena-network/idena-go/core/appstate"
	"github.com/idena-network/idena-go/core/state"
	"github.com/idena-network/idena-go/core/validators"
	"github.com/idena-network/idena-go/log"
	"github.com/idena-network/idena-go/stats/collector"
)

// C14.c: after a block is applied (real TxPool.ResetTo with the real Remove / txMap / sortedTxs / nonce cache
// locking; transaction validation is an arbitrary verdict per transaction): none of the block's transactions
// remains, no transaction of a past epoch remains, no transaction with a consumed nonce remains, everything
// else stays retrievable - (the lock order of reset vs submission is C14.d).

var vC14cVerdict = map[*types.Transaction]int{} // 0 ok, 1 invalid nonce, 2 other error

//verif:override c14c idena-go/blockchain/validation.ValidateTx vC14cValidateTx
func vC14cValidateTx(app *appstate.AppState, tx *types.Transaction, minFeePerGas *big.Int, txType validation.TxType) error {
	switch vC14cVerdict[tx] {
	case 1:
		return validation.InvalidNonce
	case 2:
		return errors.New("insufficient funds")
	}
	return nil
}

//verif:override c14c (*idena-go/core/appstate.AppState).Readonly vC14cReadonly
func vC14cReadonly(s *appstate.AppState, height uint64) (*appstate.AppState, error) { return s, nil }

//verif:override c14c (*idena-go/core/state.NonceCache).ReloadFallback vC14cReload
func vC14cReload(ns *state.NonceCache, sdb *state.StateDB) error { return nil }

//verif:override c14c (*idena-go/core/validators.ValidatorsCache).NetworkSize vC14cNetworkSize
func vC14cNetworkSize(v *validators.ValidatorsCache) int { return 100 }

//verif:obligation C14.c tier=quick use=c14c covers=blockTx,pastEpoch,consumedNonce,kept,end bounds=1-sender,<=2-pooled-transactions(consecutive-nonces,epoch-past|current|next),block-with-none-or-the-first-of-them,validation-verdict-per-transaction-arbitrary(ok|invalid-nonce|other),outside-the-ceremony
func H_C14c() { vC14cRun(false) }

//verif:obligation C14.d tier=quick use=c14c replay=none covers=end bounds=same-scenarios-as-C14.c;lock-order-graph-of-the-executed-path(reported-without-native-replay:one-native-run-cannot-exhibit-an-inversion)
// The pool mutex and the nonce-cache mutex are acquired in ONE order by the reset after a block and by a
// submission (they run in different goroutines: an inversion is a deadlock waiting to happen).
func H_C14d() { vC14cRun(true) }

func vC14cRun(lockOrder bool) {
	st := state.VNewStateDB()
	epoch := uint16(5)
	st.VPutGlobal(state.Global{Epoch: epoch, FeePerGas: big.NewInt(0), EmptyBlocksByShards: map[common.ShardId][]common.Address{}, ShardSizes: map[common.ShardId]uint32{}})
	cons := *config.GetDefaultConsensusConfig()
	cfg := &config.Config{Consensus: &cons, Mempool: config.GetDefaultMempoolConfig()}
	app := &appstate.AppState{State: st, ValidatorsCache: &validators.ValidatorsCache{}, NonceCache: state.VNewNonceCache(st)}
	pool := &TxPool{all: newTxMap(-1), shortHashAll: newShortHashTxMap(), txSyncCounts: map[common.Hash]int{}, executableTxs: map[common.Address]*sortedTxs{},
		pendingTxs: map[common.Address]*txMap{}, mutex: &sync.Mutex{}, appState: app, cfg: cfg, mempoolCfg: cfg.Mempool, statsCollector: collector.NewStatsCollector(), log: log.New()}
	vC14cVerdict = map[*types.Transaction]int{}
	sender := vSender(0)
	st.VPutAccount(sender, state.Account{Nonce: 0, Epoch: epoch})
	n := vChoice("pooled", 3)
	var txs []*types.Transaction
	lst := newSortedTxs(0)
	for k := 0; k < n; k++ {
		txEpoch := epoch - 1 + uint16(vChoice("tx.epoch", 3)) // past, current, next
		tx := &types.Transaction{Type: types.SendTx, AccountNonce: uint32(k + 1), Epoch: txEpoch}
		types.VSetSender(tx, sender)
		var h common.Hash
		h[0], h[1] = 1, byte(k+1)
		types.VSetHash(tx, h)
		types.VSetHash128(tx, common.Hash128{1, byte(k + 1)})
		vC14cVerdict[tx] = vChoice("tx.verdict", 3)
		pool.all.Add(tx)
		pool.shortHashAll.Add(tx)
		lst.txs = append(lst.txs, tx)
		txs = append(txs, tx)
	}
	if n > 0 {
		pool.executableTxs[sender] = lst
	}
	block := &types.Block{Header: &types.Header{EmptyBlockHeader: &types.EmptyBlockHeader{Height: 10}}, Body: &types.Body{}}
	inBlock := vAnd(n > 0, vBool("block.includesFirst"))
	if inBlock {
		block.Body.Transactions = []*types.Transaction{txs[0]}
		vCover("blockTx")
	}

	pool.ResetTo(block)

	for k, tx := range txs {
		if lockOrder {
			break
		}
		_, kept := pool.all.Get(tx.Hash())
		if k == 0 && inBlock {
			vAssert(!kept, "none of a block's transactions remains in the pool after the block is applied")
			continue
		}
		if tx.Epoch < epoch {
			vCover("pastEpoch")
			vAssert(!kept, "no transaction of a past epoch remains after a block is applied")
		} else if tx.Epoch == epoch && vC14cVerdict[tx] == 1 {
			vCover("consumedNonce")
			vAssert(!kept, "no transaction with a consumed nonce remains after a block is applied")
		} else if tx.Epoch > epoch {
			vAssert(kept, "a transaction of a coming epoch stays retrievable")
		}
		if kept {
			vCover("kept")
			_, short := pool.shortHashAll.Get(tx.Hash128())
			vAssert(short, "a transaction that remains is retrievable by its short hash too")
		}
	}
	// a submission after the reset: the same two locks, in the same order
	next := &types.Transaction{Type: types.SendTx, AccountNonce: 9, Epoch: epoch}
	types.VSetSender(next, sender)
	types.VSetHash(next, common.Hash{2})
	types.VSetHash128(next, common.Hash128{2})
	pool.mutex.Lock()
	pool.put(next)
	pool.mutex.Unlock()
	if lockOrder {
		vAssert(vLockOrderConsistent(), "the pool lock and the nonce cache lock are always taken in the same order (reset vs submission)")
	}
	vCover("end")
}
