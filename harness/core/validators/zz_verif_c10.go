package validators

import (
	"bytes"
	"unsafe"

	"github.com/idena-network/idena-go/common"
	"github.com/idena-network/idena-go/core/state"
)

// Identity-state content the cache is (re)built from: a list of (address, ApprovedIdentity) that the
// overridden tree walk delivers in key order through the real ApprovedIdentity.ToBytes/FromBytes.
type vEntry struct {
	addr    common.Address
	data    state.ApprovedIdentity
	present bool
}

var vC10Content []vEntry

//verif:override c10 (*idena-go/core/state.IdentityStateDB).IterateIdentities vC10Iterate
func vC10Iterate(s *state.IdentityStateDB, fn func(key []byte, value []byte) bool) bool {
	// IAVL iterates in ascending key order; vC10Content is kept sorted by address
	for _, e := range vC10Content {
		if !e.present {
			continue
		}
		value, _ := e.data.ToBytes()
		key := append([]byte{0x1}, e.addr[:]...)
		if fn(key, value) {
			return true
		}
	}
	return false
}

//verif:override c10 (*idena-go/core/state.IdentityStateDB).Version vC10Version
func vC10Version(s *state.IdentityStateDB) uint64 { return 5 }

func vA(i byte) common.Address {
	var a common.Address
	a[0] = 0xa0
	a[19] = i
	return a
}

// vFlags: an identity-state entry as block application can leave it (assumed invariant, DESIGN §5 C10):
// stored entries are non-empty (Validated or Online); an entry with a delegatee is not online;
// pools (delegatees) do not delegate themselves.
func vEntryFor(tag string, addr common.Address, pool common.Address, mayDelegate bool) vEntry {
	e := vEntry{addr: addr, present: vBool(tag + ".present")}
	e.data.Validated = vBool(tag + ".validated")
	e.data.Online = vBool(tag + ".online")
	if vThorough() && (tag == "D" || tag == "Spool" || tag == "S1") {
		// thorough tier: discrimination flags on the changed entries, the pool and one delegator (on every entry
		// the product with two diff entries does not fit the path budget)
		e.data.Discriminated = vBool(tag + ".discriminated")
	}
	if mayDelegate {
		p := pool
		e.data.Delegatee = (*common.Address)(vNilIf(vBool(tag+".delegatee.nil"), unsafe.Pointer(&p)))
		vAssume(vImplies(e.data.Delegatee != nil, !e.data.Online))
	}
	vAssume(vOr(e.data.Validated, e.data.Online))
	return e
}

type vView struct {
	network, online, validators, forkCommittee int
	validated, onlineId, discriminated, isPool []bool
	poolSize                                   []int
	delegator                                  []common.Address
	sub                                        []common.Address
	sorted                                     []common.Address
	poolMembers                                [][]common.Address
}

func vObserveCache(v *ValidatorsCache, addrs []common.Address) vView {
	var r vView
	r.network, r.online, r.validators, r.forkCommittee = v.NetworkSize(), v.OnlineSize(), v.ValidatorsSize(), v.ForkCommitteeSize()
	for _, a := range addrs {
		r.validated = append(r.validated, v.IsValidated(a))
		r.onlineId = append(r.onlineId, v.IsOnlineIdentity(a))
		r.discriminated = append(r.discriminated, v.IsDiscriminated(a))
		r.isPool = append(r.isPool, v.IsPool(a))
		r.poolSize = append(r.poolSize, v.PoolSize(a))
		r.delegator = append(r.delegator, v.Delegator(a))
		if v.IsPool(a) {
			// which sub-identity of the pool a delegation nonce selects: consensus data (stake reward)
			for n := uint32(0); n < 4; n++ {
				s, _ := v.FindSubIdentity(a, n)
				r.sub = append(r.sub, s)
			}
			r.poolMembers = append(r.poolMembers, append([]common.Address{}, v.pools[a].delegators...))
		} else {
			r.poolMembers = append(r.poolMembers, nil)
		}
	}
	r.sorted = append([]common.Address{}, v.sortedValidators.list...)
	return r
}

func vSortedAsc(l []common.Address) bool {
	for i := 1; i < len(l); i++ {
		if bytes.Compare(l[i-1][:], l[i][:]) >= 0 {
			return false
		}
	}
	return true
}

//verif:obligation C01.i tier=quick use=c10 bounds=same-as-C10.a covers=poolOf3,deleted,changed
//verif:obligation C10.a tier=quick use=c10 bounds=3-delegator-candidates+1-pool,1-diff-entry,discriminated-flags-thorough-only(changed-entries,pool,one-delegator) covers=poolOf3,deleted,changed
// Incremental maintenance vs. rebuild: v1 = load(S) followed by the real UpdateFromIdentityStateDiff(D)
// must answer every public getter (sizes, per-address flags, pools, pool sizes, delegations, the
// sub-identity a nonce selects, the sorted validator list, the pool member lists) exactly like
// v2 = load(S + D) through the real loadValidNodes, for every identity-state content S over a pool
// address and three delegator candidates and every diff D.
func H_C10a() {
	pool := vA(9)
	addrs := []common.Address{vA(1), vA(2), vA(3), pool} // ascending = key order
	var S []vEntry
	for i := 0; i < 3; i++ {
		S = append(S, vEntryFor("S"+string(rune('1'+i)), addrs[i], pool, true))
	}
	S = append(S, vEntryFor("Spool", pool, pool, false))
	// one diff entry; the thorough tier adds the discrimination flags (two entries together with them exceed the
	// path budget: batches of several changes are covered through C10.d and the seeded-change history only)
	nd := 1
	diff := &state.IdentityStateDiff{}
	after := append([]vEntry{}, S...)
	for k := 0; k < nd; k++ {
		who := vChoice("diff.addr", 4)
		if vBool("diff.deleted") {
			vCover("deleted")
			diff.Values = append(diff.Values, &state.IdentityStateDiffValue{Address: addrs[who], Deleted: true})
			after[who].present = false
		} else {
			vCover("changed")
			ne := vEntryFor("D", addrs[who], pool, who != 3)
			ne.present = true
			value, _ := ne.data.ToBytes()
			diff.Values = append(diff.Values, &state.IdentityStateDiffValue{Address: addrs[who], Value: value})
			after[who] = ne
		}
	}
	ist := state.VNewIdentityStateDB()

	vC10Content = S
	v1 := NewValidatorsCache(ist, common.Address{})
	v1.Load()
	if len(v1.pools) == 1 && len(v1.pools[pool].delegators) == 3 {
		vCover("poolOf3")
	}
	v1.UpdateFromIdentityStateDiff(diff)

	vC10Content = after
	v2 := NewValidatorsCache(ist, common.Address{})
	v2.Load()

	o1, o2 := vObserveCache(v1, addrs), vObserveCache(v2, addrs)
	vAssert(o1.network == o2.network && o1.online == o2.online && o1.validators == o2.validators, "sizes agree (network, online, validators)")
	vAssert(o1.forkCommittee == o2.forkCommittee, "fork committee size agrees")
	vAssert(vEq(o1.validated, o2.validated) && vEq(o1.onlineId, o2.onlineId) && vEq(o1.discriminated, o2.discriminated), "per-address flags agree")
	vAssert(vEq(o1.isPool, o2.isPool) && vEq(o1.poolSize, o2.poolSize), "pools and pool sizes agree")
	vAssert(vEq(o1.delegator, o2.delegator), "delegations agree")
	vAssert(vEq(o1.poolMembers, o2.poolMembers), "pool member lists agree element by element (their order selects reward recipients)")
	vAssert(vEq(o1.sub, o2.sub), "FindSubIdentity agrees for every nonce")
	vAssert(vEq(o1.sorted, o2.sorted), "sorted validator list agrees")
	for _, m := range o1.poolMembers {
		vAssert(vSortedAsc(m), "pool member list is strictly ascending (binary search relies on it)")
	}
	vCover("end")
}

// ---- exports for harnesses in other packages (C07) ----

type VEntry struct {
	Addr    common.Address
	Data    state.ApprovedIdentity
	Present bool
}

// VNewCache builds a real ValidatorsCache through its own Load from the given identity-state content
// (ascending address order). Needs override set c10.
func VNewCache(entries []VEntry, god common.Address) *ValidatorsCache {
	vC10Content = nil
	for _, e := range entries {
		vC10Content = append(vC10Content, vEntry{addr: e.Addr, data: e.Data, present: e.Present})
	}
	v := NewValidatorsCache(state.VNewIdentityStateDB(), god)
	v.Load()
	return v
}

func VAddrN(i byte) common.Address { return vA(i) }

// VSymEntry: symbolic entry satisfying the stored-entry invariant (see vEntryFor).
func VSymEntry(tag string, addr, pool common.Address, mayDelegate bool) VEntry {
	e := vEntryFor(tag, addr, pool, mayDelegate)
	return VEntry{Addr: e.addr, Data: e.data, Present: e.present}
}
