package validators

import (
	mapset "github.com/deckarep/golang-set"
	"github.com/idena-network/idena-go/common"
	"github.com/idena-network/idena-go/core/state"
)

func vC07bRuns() int {
	if vSymbolic() {
		return 1
	}
	return 64 // natively Go randomises the iteration: repeat to see two orders
}

//verif:obligation C07.b tier=quick use=c10 covers=ownerSeat,poolApproved,end bounds=pool-with-owner(validated,online,discriminated-or-not)+2-delegators(validated/discriminated-symbolic)+1-plain-validator,every-drawn-subset-of-the-four,set-iteration-order-arbitrary
// All nodes derive the same committee: determineValidators (real code, real cache built by Load) maps the
// drawn seats to voters (delegators to their pool) and to the eligible voters; the result must not depend on
// the iteration order of the drawn set (a Go map inside golang-set).
func H_C07b() {
	pool := vA(9)
	owner := state.ApprovedIdentity{Validated: true, Online: true, Discriminated: vBool("owner.discriminated")}
	entries := []VEntry{}
	var drawn []common.Address
	for i := byte(1); i <= 2; i++ {
		p := pool
		d := state.ApprovedIdentity{Validated: vBool("delegator.validated"), Discriminated: vBool("delegator.discriminated"), Delegatee: &p}
		vAssume(d.Validated) // a stored delegator entry is non-empty and not online
		entries = append(entries, VEntry{Addr: vA(i), Data: d, Present: true})
	}
	entries = append(entries, VEntry{Addr: vA(3), Data: state.ApprovedIdentity{Validated: true, Online: true, Discriminated: vBool("plain.discriminated")}, Present: true})
	entries = append(entries, VEntry{Addr: pool, Data: owner, Present: true})
	v := VNewCache(entries, vA(0x55))
	for _, a := range []common.Address{vA(1), vA(2), vA(3), pool} {
		if vBool("drawn") {
			drawn = append(drawn, a)
			if a == pool {
				vCover("ownerSeat")
			}
		}
	}
	for rep := 0; rep < vC07bRuns(); rep++ {
		s1, s2 := mapset.NewSet(), mapset.NewSet()
		for _, a := range drawn {
			s1.Add(a)
			s2.Add(a)
		}
		v1, a1 := v.determineValidators(s1)
		vMapOrderNondet(true)
		v2, a2 := v.determineValidators(s2)
		vMapOrderNondet(false)
		if a1.Contains(pool) {
			vCover("poolApproved")
		}
		vAssert(v1.Equal(v2), "the voters of a committee do not depend on the iteration order of the drawn set")
		vAssert(a1.Equal(a2), "the eligible voters of a committee do not depend on the iteration order of the drawn set")
	}
	vCover("end")
}
