package state

import (
	"bytes"

	"github.com/idena-network/idena-go/common"
)

func vRuns() int {
	// natively Go randomises map iteration per range statement: repeat to see two orders
	if vSymbolic() {
		return 1
	}
	return 64
}

//verif:obligation C01.a.global tier=quick bounds=3-shard-keys(symbolic-distinct-u16),shardsNum<=3,1-proposer-per-shard covers=three
//verif:obligation C18.d tier=quick bounds=3-shard-keys(symbolic-distinct-u16),shardsNum<=3,1-proposer-per-shard covers=three
// Global.ToBytes (real code) under nondeterministic map iteration order: two evaluations of the same
// Global with three symbolic, pairwise distinct shard keys produce the same protobuf message.
func H_GlobalToBytesOrder() {
	k1, k2, k3 := common.ShardId(vU16("shard1")), common.ShardId(vU16("shard2")), common.ShardId(vU16("shard3"))
	vAssume(k1 != k2)
	vAssume(k1 != k3)
	vAssume(k2 != k3)
	var a1, a2, a3 common.Address
	a1[19], a2[19], a3[19] = 1, 2, 3
	g := Global{Epoch: vU16("epoch"), ShardsNum: uint32(vChoice("shardsNum", 4)),
		EmptyBlocksByShards: map[common.ShardId][]common.Address{k1: {a1}, k2: {a2}, k3: {a3}},
		ShardSizes:          map[common.ShardId]uint32{1: vU32("size1"), 2: vU32("size2"), 3: vU32("size3")}}
	vCover("three")
	vMapOrderNondet(true)
	for i := 0; i < vRuns(); i++ {
		b1, err1 := g.ToBytes()
		b2, err2 := g.ToBytes()
		vAssert(err1 == nil && err2 == nil, "[C01,C18] encoding succeeds")
		vAssert(vProtoSame(b1, b2), "[C01,C18] Global encodes to the same message whatever the map iteration order")
	}
	vMapOrderNondet(false)
	vCover("end")
}

//verif:obligation C01.a.keys tier=quick bounds=3-dirty-addresses-symbolic-in-first-and-last-byte,3-heights covers=three
// getOrderedObjectsKeys / getOrderedUint64Keys (real code incl. std sort) under nondeterministic map order:
// same key sequence, strictly descending, for three fully symbolic pairwise distinct keys.
func H_OrderedKeys() {
	var a [3]common.Address
	for i := range a {
		// symbolic in the most and the least significant byte (ties on the first byte are resolved by the last)
		a[i][0], a[i][19] = vU8("addr"+string(rune('1'+i))+".hi"), vU8("addr"+string(rune('1'+i))+".lo")
	}
	vAssume(a[0] != a[1])
	vAssume(a[0] != a[2])
	vAssume(a[1] != a[2])
	m := map[common.Address]struct{}{a[0]: {}, a[1]: {}, a[2]: {}}
	h1, h2, h3 := vU64("h1"), vU64("h2"), vU64("h3")
	vAssume(h1 != h2)
	vAssume(h1 != h3)
	vAssume(h2 != h3)
	hm := map[uint64]struct{}{h1: {}, h2: {}, h3: {}}
	vCover("three")
	for i := 0; i < vRuns(); i++ {
		// one evaluation under an arbitrary iteration order against one under the default order
		vMapOrderNondet(true)
		r1 := getOrderedObjectsKeys(m)
		vMapOrderNondet(false)
		r2 := getOrderedObjectsKeys(m)
		vAssert(len(r1) == 3 && r1[0] == r2[0] && r1[1] == r2[1] && r1[2] == r2[2], "[C01] ordered address keys do not depend on map order")
		vAssert(bytes.Compare(r1[0][:], r1[1][:]) > 0 && bytes.Compare(r1[1][:], r1[2][:]) > 0, "[C01] ordered address keys are strictly descending")
	}
	for i := 0; i < vRuns(); i++ {
		vMapOrderNondet(true)
		u1 := getOrderedUint64Keys(hm)
		vMapOrderNondet(false)
		u2 := getOrderedUint64Keys(hm)
		vAssert(len(u1) == 3 && u1[0] == u2[0] && u1[1] == u2[1] && u1[2] == u2[2], "[C01] ordered height keys do not depend on map order")
		vAssert(u1[0] > u1[1] && u1[1] > u1[2], "[C01] ordered height keys are strictly descending")
	}
	vMapOrderNondet(false)
	vCover("end")
}
