package state

import (
	"math/big"
	"unsafe"

	"github.com/idena-network/idena-go/common"
)

// Lazy symbolic pre-state: an account / identity / approved identity of a tracked address is
// materialised (as arbitrary values satisfying the representation invariant) the first time the
// real code looks it up, by wrapping the real lookup functions. Untouched objects cost nothing,
// which keeps the path tree proportional to what the code under test actually reads.

type VShape struct {
	Flips, Invitees, PubKey, NilBigs, Contracts bool
	// InviteesOf: when non-zero, a bit mask (bit i-1 = tracked address i) of the identities that may have an
	// invitee list; the lists of third parties, which the transaction under test only passes by, stay empty
	InviteesOf byte
}

type VLazy struct {
	On      bool
	Shape   VShape
	Names   []string // names of tracked addresses, by last address byte - 1
	AccDone, IdDone, ApDone map[byte]bool
	GlobalEpoch uint16
	// pre-state values for post-conditions (recorded at materialisation)
	PreBalance, PreStake map[byte]*big.Int
	PreNonce map[byte]uint32
	PreEpoch map[byte]uint16
	PreAccPresent, PreIdPresent map[byte]bool
	PreState map[byte]IdentityState
	PreInviter, PreDelegatee map[byte]*common.Address
	PreInviterPtr map[byte]*Inviter
	PreApproved map[byte]ApprovedIdentity
	PreApPresent map[byte]bool
}

var VL = &VLazy{}

func VLazyReset(names []string, epoch uint16, shape VShape) {
	VL = &VLazy{On: true, Shape: shape, Names: names, GlobalEpoch: epoch,
		AccDone: map[byte]bool{}, IdDone: map[byte]bool{}, ApDone: map[byte]bool{},
		PreBalance: map[byte]*big.Int{}, PreStake: map[byte]*big.Int{}, PreNonce: map[byte]uint32{}, PreEpoch: map[byte]uint16{},
		PreAccPresent: map[byte]bool{}, PreIdPresent: map[byte]bool{}, PreState: map[byte]IdentityState{},
		PreInviter: map[byte]*common.Address{}, PreInviterPtr: map[byte]*Inviter{}, PreDelegatee: map[byte]*common.Address{}, PreApproved: map[byte]ApprovedIdentity{}, PreApPresent: map[byte]bool{}}
}

// VAddr: tracked address number i (1-based) - never the zero address.
func VAddr(i byte) common.Address {
	var a common.Address
	a[0] = 0xa0
	a[19] = i
	return a
}

// vTracked returns the 1-based index of a tracked address (forking over the candidates when the
// address is symbolic), or 0.
func vTracked(a common.Address) byte {
	// branch-free: the result is a symbolic byte; the case split happens where it is used
	ok := a[0] == 0xa0
	for i := 1; i < 19; i++ {
		ok = vAnd(ok, a[i] == 0)
	}
	ok = vAnd(ok, vAnd(a[19] >= 1, int(a[19]) <= len(VL.Names)))
	return byte(vIte64(ok, uint64(a[19]), 0))
}

func vNonNeg(name string) *big.Int {
	b := vBig(name)
	vAssume(b.Sign() >= 0)
	return b
}

func vOptBig(name string) *big.Int {
	if VL.Shape.NilBigs {
		return (*big.Int)(vNilIf(vBool(name+".nil"), unsafe.Pointer(vNonNeg(name))))
	}
	return vNonNeg(name)
}

// vSymAddr: one of the tracked addresses, chosen symbolically (no fork).
func vSymAddr(name string) common.Address {
	b := vU8(name)
	vAssume(b >= 1)
	vAssume(int(b) <= len(VL.Names))
	a := VAddr(0)
	a[19] = b
	return a
}

func VBuildIdentity(tag string) Identity { return vBuildIdentity(tag, 0) }

func vBuildIdentity(tag string, idx byte) Identity {
	var id Identity
	st := vU8(tag + ".state")
	vAssume(st <= 8)
	id.State = IdentityState(st)
	id.Invites = vU8(tag + ".invites")
	id.Birthday = vU16(tag + ".birthday")
	id.RequiredFlips = vU8(tag + ".requiredFlips")
	id.ValidationTxsBits = vU8(tag + ".validationTxsBits")
	id.DelegationNonce = vU32(tag + ".delegationNonce")
	id.DelegationEpoch = vU16(tag + ".delegationEpoch")
	sh := vU16(tag + ".shard")
	vAssume(sh >= 1)
	vAssume(sh <= 2)
	id.ShardId = common.ShardId(sh)
	id.Penalty = vOptBig(tag + ".penalty")
	// stake parts: replenished, locked <= stake (nil stake means 0 and then the parts are 0 too)
	stakeV := vNonNeg(tag + ".stake")
	repl, lock := vNonNeg(tag+".replenishedStake"), vNonNeg(tag+".lockedStake")
	vAssume(repl.Cmp(stakeV) <= 0)
	vAssume(lock.Cmp(stakeV) <= 0)
	if VL.Shape.NilBigs {
		z := vBool(tag + ".stakeFieldsNilWhenZero")
		id.Stake = (*big.Int)(vNilIf(vAnd(z, stakeV.Sign() == 0), unsafe.Pointer(stakeV)))
		id.replenishedStake = (*big.Int)(vNilIf(vAnd(z, repl.Sign() == 0), unsafe.Pointer(repl)))
		id.lockedStake = (*big.Int)(vNilIf(vAnd(z, lock.Sign() == 0), unsafe.Pointer(lock)))
	} else {
		id.Stake, id.replenishedStake, id.lockedStake = stakeV, repl, lock
	}
	{
		d := vSymAddr(tag + ".delegatee")
		id.delegatee = (*common.Address)(vNilIf(vBool(tag+".delegatee.nil"), unsafe.Pointer(&d)))
	}
	id.pendingUndelegation = vBool(tag + ".pendingUndelegation")
	id.undelegationEpoch = vU16(tag + ".undelegationEpoch")
	id.penaltySeconds = vU16(tag + ".penaltySeconds")
	id.penaltyTimestamp = vI64(tag + ".penaltyTimestamp")
	id.Inviter = (*Inviter)(vNilIf(vBool(tag+".inviter.nil"), unsafe.Pointer(&Inviter{Address: vSymAddr(tag + ".inviter"), EpochHeight: vU32(tag + ".inviterEpochHeight")})))
	if VL.Shape.Invitees && (VL.Shape.InviteesOf == 0 || idx != 0 && VL.Shape.InviteesOf&(1<<(idx-1)) != 0) && vBool(tag+".hasInvitee") {
		id.Invitees = []TxAddr{{Address: vSymAddr(tag + ".invitee")}}
	}
	if VL.Shape.Flips && vBool(tag+".hasFlip") {
		id.Flips = []IdentityFlip{{Cid: []byte{vU8(tag + ".flipCid")}, Pair: vU8(tag + ".flipPair")}}
	}
	if VL.Shape.PubKey && vBool(tag+".hasPubKey") {
		id.PubKey = []byte{1}
	}
	return id
}

func stakeOrZero(id *Identity) *big.Int {
	if id.Stake == nil {
		return new(big.Int)
	}
	return id.Stake
}

func cloneAddr(a *common.Address) *common.Address {
	if a == nil {
		return nil
	}
	c := *a
	return &c
}

func (s *StateDB) vMaterializeAccount(addr common.Address) {
	i := byte(vConcretize(int(vTracked(addr)), 0, 8))
	if i == 0 || VL.AccDone[i] {
		return
	}
	VL.AccDone[i] = true
	if _, live := s.stateAccounts[VAddr(i)]; live {
		return
	}
	n := VL.Names[i-1]
	present := vBool("acc." + n + ".present")
	VL.PreAccPresent[i] = present
	VL.PreBalance[i] = new(big.Int)
	if present {
		acc := Account{Nonce: vU32("acc." + n + ".nonce"), Epoch: vU16("acc." + n + ".epoch"), Balance: vOptBig("acc." + n + ".balance")}
		if VL.Shape.Contracts {
			var ch common.Hash
			ch[0] = vU8("acc." + n + ".codeHash0")
			acc.Contract = (*ContractData)(vNilIf(vBool("acc."+n+".contract.nil"), unsafe.Pointer(&ContractData{CodeHash: ch, Stake: vNonNeg("acc." + n + ".contractStake")})))
		}
		vAssume(acc.Epoch <= VL.GlobalEpoch)
		if acc.Balance != nil {
			VL.PreBalance[i] = new(big.Int).Set(acc.Balance)
		}
		VL.PreNonce[i], VL.PreEpoch[i] = acc.Nonce, acc.Epoch
		s.VPutAccount(VAddr(i), acc)
	}
}

func (s *StateDB) vMaterializeIdentity(addr common.Address) {
	i := byte(vConcretize(int(vTracked(addr)), 0, 8))
	if i == 0 || VL.IdDone[i] {
		return
	}
	VL.IdDone[i] = true
	if _, live := s.stateIdentities[VAddr(i)]; live {
		return
	}
	n := VL.Names[i-1]
	present := vBool("id." + n + ".present")
	VL.PreIdPresent[i] = present
	VL.PreStake[i] = new(big.Int)
	if present {
		id := vBuildIdentity("id."+n, i)
		VL.PreStake[i] = new(big.Int).Set(stakeOrZero(&id))
		VL.PreState[i] = id.State
		VL.PreDelegatee[i] = id.Delegatee() // nil while an undelegation is pending: the identity has left its pool
		VL.PreInviterPtr[i] = id.Inviter
		s.VPutIdentity(VAddr(i), id)
	}
}

//verif:override world (*idena-go/core/state.StateDB).getStateAccount VGetStateAccount
func VGetStateAccount(s *StateDB, addr common.Address) *stateAccount {
	if VL.On {
		s.vMaterializeAccount(addr)
	}
	return s.getStateAccount(addr)
}

//verif:override world (*idena-go/core/state.StateDB).getStateIdentity VGetStateIdentity
func VGetStateIdentity(s *StateDB, addr common.Address) *stateIdentity {
	if VL.On {
		s.vMaterializeIdentity(addr)
	}
	return s.getStateIdentity(addr)
}

//verif:override world (*idena-go/core/state.IdentityStateDB).getStateIdentity VGetApprovedIdentity
func VGetApprovedIdentity(s *IdentityStateDB, addr common.Address) *stateApprovedIdentity {
	if VL.On {
		if i := byte(vConcretize(int(vTracked(addr)), 0, 8)); i != 0 && !VL.ApDone[i] {
			VL.ApDone[i] = true
			if _, live := s.stateIdentities[VAddr(i)]; !live {
				n := VL.Names[i-1]
				if vBool("approved." + n + ".present") {
					ai := ApprovedIdentity{Validated: vBool("approved." + n + ".validated"), Online: vBool("approved." + n + ".online"), Discriminated: vBool("approved." + n + ".discriminated")}
					d := vSymAddr("approved." + n + ".delegatee")
					ai.Delegatee = (*common.Address)(vNilIf(vBool("approved."+n+".delegatee.nil"), unsafe.Pointer(&d)))
					VL.PreApPresent[i] = true
					VL.PreApproved[i] = ai
					s.VPutApproved(VAddr(i), ai)
				}
			}
		}
	}
	return s.getStateIdentity(addr)
}

// VTouchAll materialises every tracked object that the run did not touch (fresh symbolic values that
// nothing has read), so that post-conditions can quantify over all tracked addresses.
func (s *StateDB) VTouchAll() {
	for i := 1; i <= len(VL.Names); i++ {
		s.vMaterializeAccount(VAddr(byte(i)))
		s.vMaterializeIdentity(VAddr(byte(i)))
	}
}

// PreInviterIs / PreDelegateeIs: relationships in the pre-state (false when the identity was absent).
func (l *VLazy) PreInviterIs(k byte, a common.Address) bool {
	p := l.PreInviterPtr[k]
	return p != nil && p.Address == a
}

func (l *VLazy) PreDelegateeIs(k byte, a common.Address) bool {
	p := l.PreDelegatee[k]
	return p != nil && *p == a
}
