package state

import "github.com/idena-network/idena-go/common"

// VNewNonceCache: a nonce cache over the given state (no readonly copy: the harness state is not mutated).
func VNewNonceCache(st *StateDB) *NonceCache {
	return &NonceCache{fallback: st, accounts: make(map[common.Address]map[uint16]*account)}
}
