package state


// C18.a / C18.b: x = an arbitrary value of the type (every field by type, from the current struct definition,
// see //verif:gen), through the type's own encoder and decoder (hand-written ToProto / FromProto; protobuf itself
// is the ideal channel, big-endian integer bytes the ideal encoding), compared field by field; then re-encoded.

//verif:gen IdentityStateDiff IdentityStatusSwitch DelegationSwitch DelayedPenalties BurntCoins Global Account Identity ApprovedIdentity

//verif:obligation C18.a.state.identitystatediff tier=quick bigblob=1 covers=end bounds=arbitrary-IdentityStateDiff(every-field-by-type,byte-strings-and-lists<=1(quick)/2(thorough),optional-fields-nil-or-set,non-negative-integers)
func H_C18_IdentityStateDiff() {
	var x IdentityStateDiff
	VFill_IdentityStateDiff(&x, "x")
	vC18Pre_IdentityStateDiff(&x)
	b, err := x.ToBytes()
	vAssert(err == nil, "[C18] IdentityStateDiff encodes")
	y := vC18New_IdentityStateDiff()
	vAssert(y.FromBytes(b) == nil, "[C18] IdentityStateDiff decodes from its own encoding")
	vAssert(VEq_IdentityStateDiff(&x, y), "[C18] IdentityStateDiff decodes from its own encoding to an equal object")
	b2, _ := y.ToBytes()
	vAssert(vProtoSame(b, b2), "[C18] a decoded IdentityStateDiff re-encodes to identical bytes")
	vCover("end")
}

//verif:obligation C18.a.state.identitystatusswitch tier=quick bigblob=1 covers=end bounds=arbitrary-IdentityStatusSwitch(every-field-by-type,byte-strings-and-lists<=1(quick)/2(thorough),optional-fields-nil-or-set,non-negative-integers)
func H_C18_IdentityStatusSwitch() {
	var x IdentityStatusSwitch
	VFill_IdentityStatusSwitch(&x, "x")
	vC18Pre_IdentityStatusSwitch(&x)
	b, err := x.ToBytes()
	vAssert(err == nil, "[C18] IdentityStatusSwitch encodes")
	y := vC18New_IdentityStatusSwitch()
	vAssert(y.FromBytes(b) == nil, "[C18] IdentityStatusSwitch decodes from its own encoding")
	vAssert(VEq_IdentityStatusSwitch(&x, y), "[C18] IdentityStatusSwitch decodes from its own encoding to an equal object")
	b2, _ := y.ToBytes()
	vAssert(vProtoSame(b, b2), "[C18] a decoded IdentityStatusSwitch re-encodes to identical bytes")
	vCover("end")
}

//verif:obligation C18.a.state.delegationswitch tier=quick bigblob=1 covers=end bounds=arbitrary-DelegationSwitch(every-field-by-type,byte-strings-and-lists<=1(quick)/2(thorough),optional-fields-nil-or-set,non-negative-integers)
func H_C18_DelegationSwitch() {
	var x DelegationSwitch
	VFill_DelegationSwitch(&x, "x")
	vC18Pre_DelegationSwitch(&x)
	b, err := x.ToBytes()
	vAssert(err == nil, "[C18] DelegationSwitch encodes")
	y := vC18New_DelegationSwitch()
	vAssert(y.FromBytes(b) == nil, "[C18] DelegationSwitch decodes from its own encoding")
	vAssert(VEq_DelegationSwitch(&x, y), "[C18] DelegationSwitch decodes from its own encoding to an equal object")
	b2, _ := y.ToBytes()
	vAssert(vProtoSame(b, b2), "[C18] a decoded DelegationSwitch re-encodes to identical bytes")
	vCover("end")
}

//verif:obligation C18.a.state.delayedpenalties tier=quick bigblob=1 covers=end bounds=arbitrary-DelayedPenalties(every-field-by-type,byte-strings-and-lists<=1(quick)/2(thorough),optional-fields-nil-or-set,non-negative-integers)
func H_C18_DelayedPenalties() {
	var x DelayedPenalties
	VFill_DelayedPenalties(&x, "x")
	vC18Pre_DelayedPenalties(&x)
	b, err := x.ToBytes()
	vAssert(err == nil, "[C18] DelayedPenalties encodes")
	y := vC18New_DelayedPenalties()
	vAssert(y.FromBytes(b) == nil, "[C18] DelayedPenalties decodes from its own encoding")
	vAssert(VEq_DelayedPenalties(&x, y), "[C18] DelayedPenalties decodes from its own encoding to an equal object")
	b2, _ := y.ToBytes()
	vAssert(vProtoSame(b, b2), "[C18] a decoded DelayedPenalties re-encodes to identical bytes")
	vCover("end")
}

//verif:obligation C18.a.state.burntcoins tier=quick bigblob=1 covers=end bounds=arbitrary-BurntCoins(every-field-by-type,byte-strings-and-lists<=1(quick)/2(thorough),optional-fields-nil-or-set,non-negative-integers)
func H_C18_BurntCoins() {
	var x BurntCoins
	VFill_BurntCoins(&x, "x")
	vC18Pre_BurntCoins(&x)
	b, err := x.ToBytes()
	vAssert(err == nil, "[C18] BurntCoins encodes")
	y := vC18New_BurntCoins()
	vAssert(y.FromBytes(b) == nil, "[C18] BurntCoins decodes from its own encoding")
	vAssert(VEq_BurntCoins(&x, y), "[C18] BurntCoins decodes from its own encoding to an equal object")
	b2, _ := y.ToBytes()
	vAssert(vProtoSame(b, b2), "[C18] a decoded BurntCoins re-encodes to identical bytes")
	vCover("end")
}

//verif:obligation C18.a.state.global tier=quick bigblob=1 covers=end bounds=arbitrary-Global(every-field-by-type,byte-strings-and-lists<=1(quick)/2(thorough),optional-fields-nil-or-set,non-negative-integers)
func H_C18_Global() {
	var x Global
	VFill_Global(&x, "x")
	vC18Pre_Global(&x)
	b, err := x.ToBytes()
	vAssert(err == nil, "[C18] Global encodes")
	y := vC18New_Global()
	vAssert(y.FromBytes(b) == nil, "[C18] Global decodes from its own encoding")
	vAssert(VEq_Global(&x, y), "[C18] Global decodes from its own encoding to an equal object")
	b2, _ := y.ToBytes()
	vAssert(vProtoSame(b, b2), "[C18] a decoded Global re-encodes to identical bytes")
	vCover("end")
}

//verif:obligation C18.a.state.account tier=quick bigblob=1 covers=end bounds=arbitrary-Account(every-field-by-type,byte-strings-and-lists<=1(quick)/2(thorough),optional-fields-nil-or-set,non-negative-integers)
func H_C18_Account() {
	var x Account
	VFill_Account(&x, "x")
	vC18Pre_Account(&x)
	b, err := x.ToBytes()
	vAssert(err == nil, "[C18] Account encodes")
	y := vC18New_Account()
	vAssert(y.FromBytes(b) == nil, "[C18] Account decodes from its own encoding")
	vAssert(VEq_Account(&x, y), "[C18] Account decodes from its own encoding to an equal object")
	b2, _ := y.ToBytes()
	vAssert(vProtoSame(b, b2), "[C18] a decoded Account re-encodes to identical bytes")
	vCover("end")
}

//verif:obligation C18.a.state.identity tier=quick bigblob=1 covers=end bounds=arbitrary-Identity(two-slices-optional-fields-without-lists|lists-without-optional-fields;every-field-by-type,byte-strings-and-lists<=1(quick)/2(thorough),optional-fields-nil-or-set,non-negative-integers)
func H_C18_Identity() {
	var x Identity
	vC18Slice()
	VFill_Identity(&x, "x")
	vGenLean, vGenNoOptional = false, false
	vC18Pre_Identity(&x)
	b, err := x.ToBytes()
	vAssert(err == nil, "[C18] Identity encodes")
	y := vC18New_Identity()
	vAssert(y.FromBytes(b) == nil, "[C18] Identity decodes from its own encoding")
	vAssert(VEq_Identity(&x, y), "[C18] Identity decodes from its own encoding to an equal object")
	b2, _ := y.ToBytes()
	vAssert(vProtoSame(b, b2), "[C18] a decoded Identity re-encodes to identical bytes")
	vCover("end")
}

//verif:obligation C18.a.state.approvedidentity tier=quick bigblob=1 covers=end bounds=arbitrary-ApprovedIdentity(every-field-by-type,byte-strings-and-lists<=1(quick)/2(thorough),optional-fields-nil-or-set,non-negative-integers)
func H_C18_ApprovedIdentity() {
	var x ApprovedIdentity
	VFill_ApprovedIdentity(&x, "x")
	vC18Pre_ApprovedIdentity(&x)
	b, err := x.ToBytes()
	vAssert(err == nil, "[C18] ApprovedIdentity encodes")
	y := vC18New_ApprovedIdentity()
	vAssert(y.FromBytes(b) == nil, "[C18] ApprovedIdentity decodes from its own encoding")
	vAssert(VEq_ApprovedIdentity(&x, y), "[C18] ApprovedIdentity decodes from its own encoding to an equal object")
	b2, _ := y.ToBytes()
	vAssert(vProtoSame(b, b2), "[C18] a decoded ApprovedIdentity re-encodes to identical bytes")
	vCover("end")
}

// The product of all optional fields with all lists is too large for this type; two slices of it are explored
// instead - (every optional field and scalar, no lists / byte strings) and (every list and byte string, no
// optional fields); the thorough tier has longer byte strings in the second slice.
func vC18Slice() {
	vGenLean, vGenNoOptional = false, false
	if vChoice("slice", 2) == 0 {
		vGenLean = true
	} else {
		vGenNoOptional = true
	}
}
