package state

import (
	"bytes"
	"math/big"
	"sort"

	"github.com/idena-network/idena-go/common"
	"github.com/idena-network/idena-go/log"
)

// Harness kit: builds StateDB / IdentityStateDB values directly (initialisation is skipped on
// purpose) over a recording mock of the Tree interface, so that the REAL state code
// (getStateAccount, createAccount, setters, Precommit, ...) runs both under the symbolic
// executor and natively. The tree is the environment: a sorted key/value list plus a trace.

type VTreeOp struct {
	Set   bool
	Key   []byte
	Value []byte
	Noop  bool // Remove of a key that is not in the tree: leaves an IAVL tree (and its root) untouched
}

type VMockTree struct {
	Keys   [][]byte
	Values [][]byte
	Trace  []VTreeOp
	Saved  int
	RolledBack int
	version int64
}

func (t *VMockTree) find(key []byte) int {
	for i, k := range t.Keys {
		if bytes.Equal(k, key) {
			return i
		}
	}
	return -1
}

func (t *VMockTree) Get(key []byte) (int64, []byte) {
	if i := t.find(key); i >= 0 {
		return int64(i), t.Values[i]
	}
	return 0, nil
}

func (t *VMockTree) Set(key, value []byte) bool {
	t.Trace = append(t.Trace, VTreeOp{Set: true, Key: key, Value: value})
	if i := t.find(key); i >= 0 {
		t.Values[i] = value
		return true
	}
	t.Keys = append(t.Keys, key)
	t.Values = append(t.Values, value)
	return false
}

func (t *VMockTree) Remove(key []byte) ([]byte, bool) {
	t.Trace = append(t.Trace, VTreeOp{Set: false, Key: key, Noop: t.find(key) < 0})
	if i := t.find(key); i >= 0 {
		v := t.Values[i]
		t.Keys = append(t.Keys[:i:i], t.Keys[i+1:]...)
		t.Values = append(t.Values[:i:i], t.Values[i+1:]...)
		return v, true
	}
	return nil, false
}
func (t *VMockTree) LoadVersion(targetVersion int64) (int64, error) { return targetVersion, nil }
func (t *VMockTree) Load() (int64, error)                          { return t.version, nil }
func (t *VMockTree) SaveVersion() ([]byte, int64, error) {
	t.Saved++
	t.version++
	return nil, t.version, nil
}
func (t *VMockTree) DeleteVersion(version int64) error { return nil }
func (t *VMockTree) GetImmutable() *ImmutableTree     { return nil }
func (t *VMockTree) Version() int64                   { return t.version }
func (t *VMockTree) Hash() common.Hash                { return common.Hash{} }
func (t *VMockTree) WorkingHash() common.Hash         { return common.Hash{} }
func (t *VMockTree) ExistVersion(version int64) bool  { return true }
func (t *VMockTree) LoadVersionForOverwriting(targetVersion int64) (int64, error) {
	return targetVersion, nil
}
func (t *VMockTree) Rollback()               { t.RolledBack++ }
func (t *VMockTree) AvailableVersions() []int { return nil }
func (t *VMockTree) SaveVersionAt(version int64) ([]byte, int64, error) {
	t.Saved++
	t.version = version
	return nil, version, nil
}
func (t *VMockTree) SetVirtualVersion(version int64) { t.version = version }
func (t *VMockTree) ValidateTree() bool              { return true }

func VNewStateDB() *StateDB {
	return &StateDB{
		tree:                 &VMockTree{},
		stateAccounts:        make(map[common.Address]*stateAccount),
		stateAccountsDirty:   make(map[common.Address]struct{}),
		stateIdentities:      make(map[common.Address]*stateIdentity),
		stateIdentitiesDirty: make(map[common.Address]struct{}),
		contractStoreCache:   make(map[string]*contractStoreValue),
		stateBurntCoins:      make(map[uint64]*stateBurntCoins),
		stateBurntCoinsDirty: make(map[uint64]struct{}),
		contractCodeCache:    map[common.Hash][]byte{},
		log:                  log.New(),
	}
}

func (s *StateDB) VTree() *VMockTree { return s.tree.(*VMockTree) }

func (s *StateDB) VPutAccount(addr common.Address, data Account) {
	s.setStateAccountObject(newAccountObject(addr, data, s.MarkStateAccountObjectDirty))
}

func (s *StateDB) VPutIdentity(addr common.Address, data Identity) {
	s.setStateIdentityObject(newIdentityObject(addr, data, s.MarkStateIdentityObjectDirty))
}

func (s *StateDB) VPutGlobal(data Global) {
	s.setStateGlobalObject(newGlobalObject(data, s.MarkStateGlobalObjectDirty))
}

// VIdentityHidden sets the unexported fields of an Identity.
func VIdentityHidden(id *Identity, delegatee *common.Address, pendingUndelegation bool, undelegationEpoch uint16,
	replenishedStake, lockedStake *big.Int, penaltySeconds uint16, penaltyTimestamp int64) {
	id.delegatee = delegatee
	id.pendingUndelegation = pendingUndelegation
	id.undelegationEpoch = undelegationEpoch
	id.replenishedStake = replenishedStake
	id.lockedStake = lockedStake
	id.penaltySeconds = penaltySeconds
	id.penaltyTimestamp = penaltyTimestamp
}

func (id *Identity) VDelegatee() *common.Address { return id.delegatee }
func (id *Identity) VReplenishedStake() *big.Int { return id.replenishedStake }
func (id *Identity) VLockedStake() *big.Int      { return id.lockedStake }
func (id *Identity) VPendingUndelegation() bool  { return id.pendingUndelegation }

// VAccount returns the live account object data (nil when absent or deleted).
func (s *StateDB) VAccount(addr common.Address) *Account {
	if o := s.stateAccounts[addr]; o != nil && !o.deleted {
		return &o.data
	}
	return nil
}

func (s *StateDB) VIdentity(addr common.Address) *Identity {
	if o := s.stateIdentities[addr]; o != nil && !o.deleted {
		return &o.data
	}
	return nil
}

func (s *StateDB) VGlobal() *Global {
	if s.stateGlobal == nil {
		return nil
	}
	return &s.stateGlobal.data
}

// VLiveAddresses lists every address that has a live account or identity object, sorted.
func (s *StateDB) VLiveAddresses() []common.Address {
	seen := map[common.Address]bool{}
	var res []common.Address
	for a := range s.stateAccounts {
		if !seen[a] {
			seen[a] = true
			res = append(res, a)
		}
	}
	for a := range s.stateIdentities {
		if !seen[a] {
			seen[a] = true
			res = append(res, a)
		}
	}
	sort.Slice(res, func(i, j int) bool { return bytes.Compare(res[i][:], res[j][:]) < 0 })
	return res
}

func VNewIdentityStateDB() *IdentityStateDB {
	return &IdentityStateDB{
		tree:                 &VMockTree{},
		stateIdentities:      make(map[common.Address]*stateApprovedIdentity),
		stateIdentitiesDirty: make(map[common.Address]struct{}),
		log:                  log.New(),
	}
}

func (s *IdentityStateDB) VTree() *VMockTree { return s.tree.(*VMockTree) }

func (s *IdentityStateDB) VPutApproved(addr common.Address, data ApprovedIdentity) {
	s.setStateIdentityObject(newApprovedIdentityObject(addr, data, s.MarkStateIdentityObjectDirty))
}

func (s *IdentityStateDB) VApproved(addr common.Address) *ApprovedIdentity {
	if o := s.stateIdentities[addr]; o != nil && !o.deleted {
		return &o.data
	}
	return nil
}
