package state

import "github.com/idena-network/idena-go/common"

// documented preconditions of the encodings (what every producer in the code base guarantees)
func vC18Pre_IdentityStateDiff(x *IdentityStateDiff) {}
func vC18Pre_IdentityStatusSwitch(x *IdentityStatusSwitch) {}
func vC18Pre_DelegationSwitch(x *DelegationSwitch) {}
func vC18Pre_DelayedPenalties(x *DelayedPenalties) {}
func vC18Pre_BurntCoins(x *BurntCoins) {}
func vC18Pre_Global(x *Global) {
	// the shard size table holds exactly the shards 1..ShardsNum (that is all ToBytes writes and all the state
	// reads back: MinimalShard short-circuits for the legacy ShardsNum = 0); <= 2 shards is the bound
	vAssume(x.ShardsNum <= 2)
	x.ShardSizes = map[common.ShardId]uint32{}
	for i := common.ShardId(1); i <= common.ShardId(x.ShardsNum); i++ {
		x.ShardSizes[i] = vU32("x.ShardSizes.size")
	}
}
func vC18Pre_Account(x *Account) {}
func vC18Pre_Identity(x *Identity) {}
func vC18Pre_ApprovedIdentity(x *ApprovedIdentity) {}

// the empty object a decoder starts from (the constructor where the code base has one)
func vC18New_IdentityStateDiff() *IdentityStateDiff { return new(IdentityStateDiff) }
func vC18New_IdentityStatusSwitch() *IdentityStatusSwitch { return new(IdentityStatusSwitch) }
func vC18New_DelegationSwitch() *DelegationSwitch { return new(DelegationSwitch) }
func vC18New_DelayedPenalties() *DelayedPenalties { return new(DelayedPenalties) }
func vC18New_BurntCoins() *BurntCoins { return new(BurntCoins) }
func vC18New_Global() *Global { return new(Global) }
func vC18New_Account() *Account { return new(Account) }
func vC18New_Identity() *Identity { return new(Identity) }
func vC18New_ApprovedIdentity() *ApprovedIdentity { return new(ApprovedIdentity) }
