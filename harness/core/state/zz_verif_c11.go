package state

import (
	"bytes"
	"math/big"

	"github.com/idena-network/idena-go/common"
	"github.com/idena-network/idena-go/crypto"
)

// C11: a diff is COMPLETE when replaying it on a second tree performs the same tree operations (kind, key,
// value) in the same order as the producer performed on its own tree - an IAVL root is a function of the
// operation history, so this is what "replay reproduces the root" amounts to below the tree.

func vEffective(t []VTreeOp) []VTreeOp {
	var r []VTreeOp
	for _, op := range t {
		if !op.Noop {
			r = append(r, op)
		}
	}
	return r
}

func vSameTrace(a, b []VTreeOp) bool {
	a, b = vEffective(a), vEffective(b)
	if len(a) != len(b) {
		return false
	}
	ok := true
	for i := range a {
		ok = vAnd(ok, a[i].Set == b[i].Set)
		ok = vAnd(ok, bytes.Equal(a[i].Key, b[i].Key))
		ok = vAnd(ok, bytes.Equal(a[i].Value, b[i].Value))
	}
	return ok
}

// three addresses in the quick tier (two mutations), two in the thorough tier (three mutations)
func vC11Addrs() int {
	if vThorough() {
		return 2
	}
	return 3
}

func vC11Addr(name string) common.Address {
	return VAddr(byte(vChoice(name, vC11Addrs()) + 1))
}

//verif:obligation C11.a tier=quick paths=400000 bounds=3-addresses(quick)/2(thorough),arbitrary-pre-state(present/absent,flags,delegatee),<=2-mutations(quick)/3(thorough)-of-SetValidated/SetOnline/Remove/SetDiscriminated/SetDelegatee/RemoveDelegatee,diff-through-its-stored/served-encoding covers=deleted,updated,end
// IdentityStateDB: Precommit (real) on the producer, the diff through ToBytes/FromBytes (as stored by
// WriteIdentityStateDiff and served to fast-syncing peers), AddDiff (real) on a syncer with the same
// previous identity state: identical tree operations, identical contents.
func H_C11a() {
	prod, sync := VNewIdentityStateDB(), VNewIdentityStateDB()
	for i := byte(1); i <= byte(vC11Addrs()); i++ {
		if vBool("pre.present") {
			ai := ApprovedIdentity{Validated: vBool("pre.validated"), Online: vBool("pre.online"), Discriminated: vBool("pre.discriminated")}
			vAssume(vOr(ai.Validated, ai.Online)) // empty objects are deleted at every commit
			if vBool("pre.hasDelegatee") {
				d := VAddr(3)
				ai.Delegatee = &d
			}
			enc, _ := ai.ToBytes()
			prod.VTree().Set(StateDbKeys.IdentityKey(VAddr(i)), enc)
			sync.VTree().Set(StateDbKeys.IdentityKey(VAddr(i)), enc)
		}
	}
	prod.VTree().Trace, sync.VTree().Trace = nil, nil
	n := 2
	if vThorough() {
		n = 3
	}
	for k := 0; k < n; k++ {
		a := vC11Addr("op.addr")
		switch vChoice("op", 7) {
		case 0:
		case 1:
			prod.SetValidated(a, vBool("op.value"))
		case 2:
			prod.SetOnline(a, vBool("op.value"))
		case 3:
			prod.Remove(a)
		case 4:
			prod.SetDiscriminated(a, vBool("op.value"))
		case 5:
			prod.SetDelegatee(a, VAddr(2))
		case 6:
			prod.RemoveDelegatee(a)
		}
	}
	height := uint64(100)
	diff := prod.Precommit(true)
	for _, v := range diff.Values {
		if v.Deleted {
			vCover("deleted")
		} else {
			vCover("updated")
		}
	}
	raw, err := diff.ToBytes()
	vAssert(err == nil, "the identity diff encodes")
	served := new(IdentityStateDiff)
	vAssert(served.FromBytes(raw) == nil, "the stored identity diff decodes")

	sync.AddDiff(height, served)

	vAssert(vSameTrace(prod.VTree().Trace, sync.VTree().Trace), "replaying the stored identity diff performs exactly the producer's tree operations (same root)")
	for i := byte(1); i <= byte(vC11Addrs()); i++ {
		_, pv := prod.VTree().Get(StateDbKeys.IdentityKey(VAddr(i)))
		_, sv := sync.VTree().Get(StateDbKeys.IdentityKey(VAddr(i)))
		vAssert(bytes.Equal(pv, sv), "after the replay both identity trees hold the same value for every address")
	}
	if len(diff.Values) > 0 {
		vAssert(sync.VTree().Version() == int64(height)-1, "the replay positions the tree at the block's parent version so that the commit lands on the block height")
	}
	vCover("end")
}

//verif:obligation C11.b tier=quick bounds=one-dirty-object-of-every-class(quick:7-classes-present-or-not+4-always;thorough:all-present-or-not)(account,identity,contract-value-set/removed,burnt-coins,contract-code(new-or-already-stored),global,status-switch,delegation-switch,delayed-penalties,discrimination-switch),deleteEmptyObjects-both covers=nonempty,end
// StateDB: the []*StateTreeDiff returned by Precommit (what AddBlock applies to the node's own state and
// what a block's state diff is) replayed with AddDiff performs exactly the producer's tree operations.
func H_C11b() {
	prod, sync := VNewStateDB(), VNewStateDB()
	a1, a2 := VAddr(1), VAddr(2)
	// the contract store entry that is removed below exists in the previous state
	prod.VTree().Set(StateDbKeys.ContractStoreKey(a2, []byte{2}), []byte{9})
	sync.VTree().Set(StateDbKeys.ContractStoreKey(a2, []byte{2}), []byte{9})
	prod.VTree().Trace, sync.VTree().Trace = nil, nil
	if vBool("acc") {
		prod.AddBalance(a1, big.NewInt(int64(vU8("acc.amount"))))
	}
	if vOr(!vThorough(), vBool("acc2")) {
		prod.SetNonce(a2, vU32("acc2.nonce"))
	}
	if vBool("identity") {
		prod.SetState(a1, IdentityState(vChoice("identity.state", 3)))
	}
	if vBool("store.set") {
		prod.SetContractValue(a2, []byte{1}, []byte{vU8("store.value")})
	}
	if vBool("store.remove") {
		prod.RemoveContractValue(a2, []byte{2})
	}
	if vBool("burnt") {
		prod.AddBurntCoins(5, a1, "k", big.NewInt(int64(vU8("burnt.amount"))))
	}
	if vBool("code") {
		code := []byte{vU8("code.byte")}
		if vBool("code.alreadyStored") {
			// the same code was deployed by an earlier block (it is stored under its hash and shared)
			h := crypto.Hash(code)
			prod.VTree().Set(StateDbKeys.ContractCodeKey(h), code)
			sync.VTree().Set(StateDbKeys.ContractCodeKey(h), code)
			prod.VTree().Trace, sync.VTree().Trace = nil, nil
		}
		prod.DeployWasmContract(a2, code)
	}
	if vBool("global") {
		prod.SetEpochBlock(vU64("global.epochBlock"))
	}
	if vOr(!vThorough(), vBool("statusSwitch")) {
		prod.ToggleStatusSwitchAddress(a1)
	}
	if vOr(!vThorough(), vBool("delegationSwitch")) {
		prod.ToggleDelegationAddress(a1, a2)
	}
	if vOr(!vThorough(), vBool("delayedPenalty")) {
		prod.AddDelayedPenalty(a1)
	}
	diffs := prod.Precommit(vBool("deleteEmptyObjects"))
	if len(diffs) > 0 {
		vCover("nonempty")
	}
	sync.AddDiff(diffs)
	vAssert(len(vEffective(prod.VTree().Trace)) <= len(diffs), "every tree operation of a commit is part of the state diff")
	vAssert(vSameTrace(prod.VTree().Trace, sync.VTree().Trace), "replaying the state diff performs exactly the producer's tree operations (same root)")
	vCover("end")
}
