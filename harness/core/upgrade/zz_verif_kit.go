package upgrade

import "github.com/idena-network/idena-go/config"

// VNewUpgrader: an Upgrader that only knows its configuration (enough for Target()).
func VNewUpgrader(cfg *config.Config) *Upgrader { return &Upgrader{config: cfg} }
