package pengings

import (
	"sync"

	mapset "github.com/deckarep/golang-set"
	"github.com/idena-network/idena-go/blockchain"
	"github.com/idena-network/idena-go/blockchain/types"
	"github.com/idena-network/idena-go/common"
	"github.com/idena-network/idena-go/core/appstate"
	"github.com/idena-network/idena-go/core/upgrade"
	"github.com/idena-network/idena-go/core/validators"
)

// C07.c: vote admission (real Votes.AddVote). A vote is kept for counting only if its round lies in the
// window around the head, it was not seen before, and - once there are online validators - its signer is an
// online identity; a vote offered twice is kept once.

var vC07cOnline int
var vC07cVoterOnline bool
var vC07cVoter common.Address

//verif:override c07c (*idena-go/blockchain/types.Vote).Hash vC07cVoteHash
func vC07cVoteHash(v *types.Vote) common.Hash {
	// a function of the signed content and the signature
	var h common.Hash
	h[0], h[1], h[2] = byte(v.Header.Round), v.Header.Step, v.Header.VotedHash[0]
	if len(v.Signature) > 0 {
		h[3] = v.Signature[0]
	}
	return h
}

//verif:override c07c (*idena-go/blockchain/types.Vote).VoterAddr vC07cVoterAddr
func vC07cVoterAddr(v *types.Vote) common.Address { return vC07cVoter }

//verif:override c07c (*idena-go/core/validators.ValidatorsCache).OnlineSize vC07cOnlineSize
func vC07cOnlineSize(v *validators.ValidatorsCache) int { return vC07cOnline }

//verif:override c07c (*idena-go/core/validators.ValidatorsCache).IsOnlineIdentity vC07cIsOnline
func vC07cIsOnline(v *validators.ValidatorsCache, a common.Address) bool {
	return vAnd(a == vC07cVoter, vC07cVoterOnline)
}

//verif:override c07c (*idena-go/blockchain.OfflineDetector).ProcessVote vC07cOfflineVote
func vC07cOfflineVote(dt *blockchain.OfflineDetector, vote *types.Vote) {}

//verif:override c07c (*idena-go/core/upgrade.Upgrader).ProcessVote vC07cUpgradeVote
func vC07cUpgradeVote(u *upgrade.Upgrader, vote *types.Vote) {}

//verif:obligation C07.c tier=quick use=c07c covers=kept,stale,future,offline,duplicate,end bounds=head-height-and-vote-round-symbolic-64-bit,online-set-empty-or-not,signer-online-or-not,one-vote-offered-twice
func H_C07c() {
	headHeight := vU64("head.height")
	vAssume(headHeight < 1<<40)
	votes := &Votes{votesByRound: &sync.Map{}, knownVotes: mapset.NewSet(), state: &appstate.AppState{ValidatorsCache: &validators.ValidatorsCache{}},
		head: &types.Header{EmptyBlockHeader: &types.EmptyBlockHeader{Height: headHeight}}, offlineDetector: &blockchain.OfflineDetector{}, upgrade: &upgrade.Upgrader{}}
	vC07cOnline = int(vU16("onlineSize"))
	vC07cVoterOnline = vBool("voter.online")
	vC07cVoter = common.Address{7}
	round := vU64("vote.round")
	vAssume(round < 1<<40)
	vote := &types.Vote{Header: &types.VoteHeader{Round: round, Step: vU8("vote.step")}, Signature: []byte{vU8("vote.sig")}}
	vote.Header.VotedHash[0] = vU8("vote.votedHash")

	kept := votes.AddVote(vote)

	stale := vAnd(headHeight > VotesLag, round < headHeight-VotesLag)
	future := vAnd(round > headHeight, round-headHeight > PropagateFutureVotesPeriod)
	offline := vAnd(vC07cOnline > 0, !vC07cVoterOnline)
	if kept {
		vCover("kept")
		vAssert(!stale, "[C07] a vote of a round that lies behind the head by more than the lag is not kept")
		vAssert(!future, "[C07] a vote of a round too far ahead of the head is not kept")
		vAssert(!offline, "[C07] a vote signed by an address that is not an online identity is not kept (once there are online validators)")
		m := votes.GetVotesOfRound(round)
		stored := false
		if m != nil {
			_, stored = m.Load(vC07cVoteHash(vote))
		}
		vAssert(stored, "[C07] a kept vote is filed under its own round")
		vAssert(!votes.AddVote(vote), "[C07] a vote offered twice is kept once")
		vCover("duplicate")
	} else {
		if stale {
			vCover("stale")
		}
		if future {
			vCover("future")
		}
		if offline {
			vCover("offline")
		}
		vAssert(vOr(stale, vOr(future, offline)), "[C07] a fresh vote of an online identity for a round inside the window is kept (a genuine quorum is countable)")
	}
	vCover("end")
}
