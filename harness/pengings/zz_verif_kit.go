package pengings

import (
	"sync"

	mapset "github.com/deckarep/golang-set"
	"github.com/idena-network/idena-go/blockchain/types"
)

// VNewVotes: an empty vote store (no head, no bus: only the per-round filing is used).
func VNewVotes() *Votes { return &Votes{votesByRound: &sync.Map{}, knownVotes: mapset.NewSet()} }

// VFileVote files a vote under a round as AddVote does (key: any distinct value).
func (votes *Votes) VFileVote(round uint64, key int, vote *types.Vote) {
	m, _ := votes.votesByRound.LoadOrStore(round, &sync.Map{})
	m.(*sync.Map).Store(key, vote)
}
