package rpc

import (
	"context"
	"reflect"
)

// Environment: a codec that hands the server a prepared list of request headers and records what the
// server does with it; one registered probe service with a method and a subscription.
type vCodec struct {
	reqs      []rpcRequest
	batch     bool
	parseFail []bool
	parsed    int
	written   int
	errorsFor []int
}

func (c *vCodec) ReadRequestHeaders() ([]rpcRequest, bool, Error) { return c.reqs, c.batch, nil }
func (c *vCodec) ParseRequestArguments(argTypes []reflect.Type, params interface{}) ([]reflect.Value, Error) {
	c.parsed++
	if s, ok := params.(string); ok && s == "bad" {
		return nil, &invalidParamsError{"bad params"}
	}
	return []reflect.Value{{}, {}}, nil
}
func (c *vCodec) CreateResponse(id interface{}, reply interface{}) interface{} { return "ok" }
func (c *vCodec) CreateErrorResponse(id interface{}, err Error) interface{}     { return err }
func (c *vCodec) CreateErrorResponseWithInfo(id interface{}, err Error, info interface{}) interface{} {
	return err
}
func (c *vCodec) CreateNotification(id, namespace string, event interface{}) interface{} { return "n" }
func (c *vCodec) Write(msg interface{}) error                                           { c.written++; return nil }
func (c *vCodec) Close()                                                                {}
func (c *vCodec) Closed() <-chan interface{}                                            { return nil }

// handled[i]: (*Server).handle ran for request i - i.e. a method ran, or a subscription was created or cancelled.
var vC19Handled []*serverRequest

//verif:override c19 (*idena-go/rpc.Server).handle vC19Handle
func vC19Handle(s *Server, ctx context.Context, codec ServerCodec, req *serverRequest) (interface{}, func()) {
	vC19Handled = append(vC19Handled, req)
	return "handled", nil
}

// vKey: a key of length 0..2 over a two-letter alphabet (empty, prefix, case variant, wrong, right are all reachable)
func vKey(tag string) string {
	n := vChoice(tag+".len", 3)
	b := make([]byte, n)
	for i := range b {
		c := vU8(tag + ".char")
		vAssume(vOr(c == 'a', c == 'A'))
		b[i] = c
	}
	return string(b)
}

func vServer() (*Server, string) {
	key := vKey("apiKey")
	vAssume(len(key) > 0)
	svc := &service{name: "probe", callbacks: callbacks{"m": &callback{}, "n": &callback{argTypes: []reflect.Type{nil}}},
		subscriptions: subscriptions{"s": &callback{isSubscribe: true}}}
	return &Server{services: serviceRegistry{"probe": svc}, apiKey: key}, key
}

func vRequest(tag string, reduced bool) rpcRequest {
	r := rpcRequest{key: vKey(tag + ".key"), isPubSub: vBool(tag + ".isPubSub"), id: 1}
	if reduced {
		// batch neighbour: any key, a call or an unsubscription of the probe service
		r.service = "probe"
		r.method = []string{"m", "probe_unsubscribe"}[vChoice(tag+".method", 2)]
		return r
	}
	r.service = []string{"probe", "other"}[vChoice(tag+".service", 2)]
	r.method = []string{"m", "n", "s", "probe_unsubscribe", "x"}[vChoice(tag+".method", 5)]
	switch vChoice(tag+".params", 3) {
	case 1:
		r.params = "good"
	case 2:
		r.params = "bad"
	}
	if vBool(tag + ".invalidElement") {
		r.err = &invalidRequestError{"invalid batch element"}
	}
	return r
}

func vC19(n int) {
	s, key := vServer()
	codec := &vCodec{batch: n > 1}
	for i := 0; i < n; i++ {
		codec.reqs = append(codec.reqs, vRequest("req", i > 0))
	}
	// the same requests on a server without a key: what "being served" means
	open := &Server{services: s.services}
	want, _, _ := open.readRequest(&vCodec{reqs: codec.reqs, batch: codec.batch})

	reqs, _, err := s.readRequest(codec)
	vAssert(err == nil && len(reqs) == n, "one verdict per request")
	for i, r := range codec.reqs {
		if r.key != key {
			vCover("wrongKey")
			vAssert(reqs[i].err != nil, "a request without exactly the configured key is answered with an error")
			vAssert(reqs[i].callb == nil && !reqs[i].isUnsubscribe, "a request without the key selects no method, subscription or unsubscription")
			if r.err == nil {
				_, isKeyErr := reqs[i].err.(*invalidApiKeyError)
				vAssert(isKeyErr, "an otherwise well-formed request without the key gets the invalid-key error")
			}
		} else {
			vCover("rightKey")
			vAssert((reqs[i].err == nil) == (want[i].err == nil) && reqs[i].callb == want[i].callb && reqs[i].isUnsubscribe == want[i].isUnsubscribe,
				"a request carrying the key is treated exactly as on a server without a key, whatever its batch neighbours carry")
		}
	}
	// execution: handle() is reached exactly for the requests that passed
	vC19Handled = nil
	if n == 1 {
		s.exec(context.Background(), codec, reqs[0])
	} else {
		s.execBatch(context.Background(), codec, reqs)
	}
	for i, r := range codec.reqs {
		reached := false
		for _, h := range vC19Handled {
			if h == reqs[i] {
				reached = true
			}
		}
		if r.key != key {
			vAssert(!reached, "no service method runs and no subscription is created or cancelled for a request without the key")
		} else if reqs[i].err == nil {
			vCover("served")
			vAssert(reached, "a valid request carrying the key is served")
		}
	}
	vCover("end")
}

//verif:obligation C19.a tier=quick use=c19 bounds=single-request,keys-of-length-0..2-over-{a,A},service-probe|other,methods-m|n|s|unsubscribe|unknown,pubsub-flag,params,invalid-element covers=wrongKey,rightKey,served
// Server.readRequest + exec (real code) for a single request with symbolic key and api key.
func H_C19a() { vC19(1) }

//verif:obligation C19.b tier=quick use=c19 bounds=batch-of-2:first-request-as-C19.a,second-any-key+call|unsubscribe covers=wrongKey,rightKey,served
// Server.readRequest + execBatch (real code) for a batch of two requests with independent keys.
func H_C19b() { vC19(2) }
