package consensus

import (
	"time"

	mapset "github.com/deckarep/golang-set"
	"github.com/idena-network/idena-go/blockchain"
	"github.com/idena-network/idena-go/blockchain/types"
	"github.com/idena-network/idena-go/common"
	"github.com/idena-network/idena-go/config"
	"github.com/idena-network/idena-go/core/appstate"
	"github.com/idena-network/idena-go/core/validators"
	"github.com/idena-network/idena-go/log"
	"github.com/idena-network/idena-go/pengings"
	"github.com/idena-network/idena-go/stats/collector"
)

// C07.d: every certificate the vote counter emits (real Engine.countVotes, one pass over the filed votes)
// consists of at least the required number of votes by DISTINCT eligible committee members, all for the
// returned hash, this parent and this step; and a filed quorum is found.

var vC07dStep *validators.StepValidators

//verif:override c07d (*idena-go/core/validators.ValidatorsCache).GetOnlineValidators vC07dCommittee
func vC07dCommittee(v *validators.ValidatorsCache, seed types.Seed, round uint64, step uint8, limit int) *validators.StepValidators {
	return vC07dStep
}

//verif:override c07d (*idena-go/blockchain.Blockchain).GetCommitteeSize vC07dCommitteeSize
func vC07dCommitteeSize(chain *blockchain.Blockchain, vc *validators.ValidatorsCache, final bool) int { return 3 }

// the quorum reduction for non-eligible members: round(0.65 * v) for v = 0..3 (the real floating point function
// is exercised by C07.a; here it would put floating point into every path condition)
//verif:override c07d (*idena-go/core/validators.StepValidators).VotesCountSubtrahend vC07dSubtrahend
func vC07dSubtrahend(sv *validators.StepValidators, agreementThreshold float64) int {
	v := sv.Original.Cardinality() - sv.ApprovedValidators.Cardinality()
	return []int{0, 1, 1, 2}[v]
}

//verif:override c07d (*idena-go/blockchain.OfflineDetector).PushValidators vC07dPushValidators
func vC07dPushValidators(dt *blockchain.OfflineDetector, round uint64, step uint8, sv *validators.StepValidators) {}

//verif:override c07d (*idena-go/blockchain/types.Vote).VoterAddr vC07dVoterAddr
func vC07dVoterAddr(v *types.Vote) common.Address { return vC07dAddr(v.Signature[0]) }

func vC07dAddr(i byte) common.Address { return common.Address{0xb0, i} }

// the clock of the counting loop: one pass, then the timeout has elapsed. (The std functions themselves are
// hooked natively as well, so the stubs only react to the loop's own instants and sleeps.)
//verif:override c07d time.Now vC07dNow
//verif:callsite c07d consensus/engine.go time.Now vC07dNow
func vC07dNow() time.Time { return vC07dStart }

var vC07dStart = time.Unix(1700000000, 0)
var vC07dSleeps int

//verif:override c07d time.Since vC07dSinceFn
//verif:callsite c07d consensus/engine.go time.Since vC07dSinceFn
func vC07dSinceFn(t time.Time) time.Duration {
	if !t.Equal(vC07dStart) {
		return 0
	}
	return time.Duration(vC07dSleeps) * 500 * time.Millisecond
}

//verif:override c07d time.Sleep vC07dSleep
//verif:callsite c07d consensus/engine.go time.Sleep vC07dSleep
func vC07dSleep(d time.Duration) {
	if d == 500*time.Millisecond {
		vC07dSleeps++
	}
}

//verif:obligation C07.d tier=quick use=c07d covers=certified,notCertified,end bounds=committee-of-3(each-member-eligible-or-not),<=2-filed-votes(quick)/3(thorough)(signer-among-3-members+1-outsider,2-candidate-hashes,parent-and-step-matching-or-not),required-votes-1..3,one-counting-pass
func H_C07d() {
	orig, vals, approved := mapset.NewSet(), mapset.NewSet(), mapset.NewSet()
	var eligible [5]bool
	for i := byte(1); i <= 3; i++ {
		orig.Add(vC07dAddr(i))
		vals.Add(vC07dAddr(i))
		if vBool("member.eligible") {
			approved.Add(vC07dAddr(i))
			eligible[i] = true
		}
	}
	vC07dStep = &validators.StepValidators{Original: orig, Validators: vals, ApprovedValidators: approved}
	round, step := uint64(100), uint8(2)
	parent := common.Hash{0x11}
	votes := pengings.VNewVotes()
	maxVotes := 2
	if vThorough() {
		maxVotes = 3
	}
	n := vChoice("filedVotes", maxVotes+1)
	type rec struct {
		signer, hash byte
		match        bool
	}
	var filed []rec
	for k := 0; k < n; k++ {
		signer := byte(vChoice("vote.signer", 4) + 1) // 4 = an outsider
		hash := byte(vChoice("vote.hash", 2) + 1)
		parentOK, stepOK := vBool("vote.parentMatches"), vBool("vote.stepMatches")
		v := &types.Vote{Header: &types.VoteHeader{Round: round, Step: step, ParentHash: parent, VotedHash: common.Hash{hash}}, Signature: []byte{signer}}
		if !parentOK {
			v.Header.ParentHash = common.Hash{0x22}
		}
		if !stepOK {
			v.Header.Step = step + 1
		}
		votes.VFileVote(round, k, v)
		filed = append(filed, rec{signer, hash, parentOK && stepOK})
	}
	need := vChoice("requiredVotes", 3) + 1
	cons := *config.GetDefaultConsensusConfig()
	engine := &Engine{log: log.New(), cfg: &config.Config{Consensus: &cons}, votes: votes, appState: &appstate.AppState{ValidatorsCache: &validators.ValidatorsCache{}},
		chain: &blockchain.Blockchain{Head: &types.Header{EmptyBlockHeader: &types.EmptyBlockHeader{Height: 99}}}, offlineDetector: &blockchain.OfflineDetector{}, statsCollector: collector.NewStatsCollector()}
	vC07dSleeps = 0
	necessary := need - vC07dStep.VotesCountSubtrahend(cons.AgreementThreshold)

	hash, cert, err := engine.countVotes(round, step, parent, need, 400*time.Millisecond)

	// reference: distinct eligible members with a matching vote, per candidate hash
	var support [3]int
	for h := byte(1); h <= 2; h++ {
		for s := byte(1); s <= 3; s++ {
			has := false
			for _, f := range filed {
				if f.signer == s && f.hash == h && f.match {
					has = true
				}
			}
			if has && eligible[s] {
				support[h]++
			}
		}
	}
	if err == nil {
		vCover("certified")
		vAssert(cert != nil && len(cert.Votes) >= necessary && len(cert.Votes) > 0, "an emitted certificate holds at least the required number of votes")
		seen := map[common.Address]bool{}
		for _, v := range cert.Votes {
			a := vC07dVoterAddr(v)
			vAssert(!seen[a], "the votes of an emitted certificate are by distinct members")
			seen[a] = true
			vAssert(vC07dStep.Approved(a), "the votes of an emitted certificate are by eligible committee members")
			vAssert(v.Header.VotedHash == hash && v.Header.ParentHash == parent && v.Header.Step == step && v.Header.Round == round, "the votes of an emitted certificate are for the returned hash, this parent, this round and this step")
		}
	} else {
		vCover("notCertified")
		if necessary >= 1 {
			vAssert(support[1] < necessary && support[2] < necessary, "a filed quorum of distinct eligible matching votes is certified")
		}
	}
	vCover("end")
}
