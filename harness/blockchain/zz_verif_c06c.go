package blockchain

import (
	"math/big"
	"time"

	"github.com/idena-network/idena-go/blockchain/types"
	"github.com/idena-network/idena-go/common"
	"github.com/idena-network/idena-go/config"
	"github.com/idena-network/idena-go/core/appstate"
	"github.com/idena-network/idena-go/core/state"
	"github.com/idena-network/idena-go/core/validators"
	"github.com/idena-network/idena-go/stats/collector"
)

// C06.c: the block-level half of the replay argument. The per-transaction lemma (C06.a) rejects a replay as
// long as the sender's nonce of this epoch is still on record. A block may drop that record (clearing dust
// accounts resets the nonce) only together with the switch to the next epoch, after which the epoch check
// rejects the old transaction. Real applyBlockOnState / applyEmptyBlockOnState / applyNewEpoch /
// clearDustAccounts with every other step a recorder: a nonce reset is always followed by IncEpoch in the same block.

var vC06cEvents []string

func vC06cLog(s string) { vC06cEvents = append(vC06cEvents, s) }

//verif:override c06c (*idena-go/blockchain.Blockchain).applyStatusSwitch vC06cStep3
//verif:override c06c (*idena-go/blockchain.Blockchain).applyDelayedOfflinePenalties vC06cStep3
//verif:override c06c (*idena-go/blockchain.Blockchain).applyDiscriminationStatusSwitch vC06cStep3
func vC06cStep3(chain *Blockchain, app *appstate.AppState, block *types.Block, sc collector.StatsCollector) {}

//verif:override c06c (*idena-go/blockchain.Blockchain).applyDelegationSwitch vC06cDelegationSwitch
func vC06cDelegationSwitch(chain *Blockchain, app *appstate.AppState, block *types.Block, sc collector.StatsCollector) []*state.Delegation {
	return nil
}

//verif:override c06c (*idena-go/blockchain.Blockchain).applyBlockRewards vC06cRewards
func vC06cRewards(chain *Blockchain, totalFee *big.Int, totalTips *big.Int, app *appstate.AppState, block *types.Block, ctx *blockRewardCtx, sc collector.StatsCollector) {
}

//verif:override c06c (*idena-go/blockchain.Blockchain).switchPoolsToOffline vC06cPoolsOffline
func vC06cPoolsOffline(chain *Blockchain, app *appstate.AppState, u []*state.Delegation, block *types.Block) {}

//verif:override c06c (*idena-go/blockchain.Blockchain).applyGlobalParams vC06cStep2
//verif:override c06c (*idena-go/blockchain.Blockchain).applyVrfProposerThreshold vC06cStep2
//verif:override c06c (*idena-go/blockchain.Blockchain).clearOutdatedBurntCoins vC06cStep2
//verif:override c06c (*idena-go/blockchain.Blockchain).applyMiddlewares vC06cStep2
func vC06cStep2(chain *Blockchain, app *appstate.AppState, block *types.Block) {}

//verif:override c06c (*idena-go/blockchain.Blockchain).applyNextBlockFee vC06cNextFee
func vC06cNextFee(chain *Blockchain, app *appstate.AppState, usedGas uint64) {}

//verif:override c06c (*idena-go/core/appstate.AppState).Precommit vC06cPrecommit
func vC06cPrecommit(s *appstate.AppState) ([]*state.StateTreeDiff, *state.IdentityStateDiff) {
	vC06cLog("precommit")
	return nil, nil
}

//verif:override c06c (*idena-go/core/state.StateDB).Root vC06cRoot
func vC06cRoot(s *state.StateDB) common.Hash { return common.Hash{} }

//verif:override c06c (*idena-go/core/state.IdentityStateDB).Root vC06cIdRoot
func vC06cIdRoot(s *state.IdentityStateDB) common.Hash { return common.Hash{} }

// ---- inside applyNewEpoch ----

//verif:override c06c idena-go/blockchain.setNewIdentitiesAttributes vC06cSetAttributes
func vC06cSetAttributes(app *appstate.AppState, unlockStakeAge uint8, totalInvitesCount float32, networkSize int, pools map[common.Address]struct{}, failed bool, results map[common.ShardId]*types.ValidationResults, sc collector.StatsCollector) (int, int, int, map[common.ShardId]int, map[common.ShardId]int, map[common.ShardId]int) {
	return 0, 0, 0, nil, nil, nil
}

//verif:override c06c idena-go/blockchain.rewardValidIdentities vC06cRewardIdentities
func vC06cRewardIdentities(app *appstate.AppState, cfg *config.ConsensusConf, results map[common.ShardId]*types.ValidationResults, epochDurations []uint32, nonValidatedStakes map[common.Address]*big.Int, sc collector.StatsCollector) {
}

//verif:override c06c idena-go/blockchain.balanceShards vC06cBalanceShards
func vC06cBalanceShards(app *appstate.AppState, totalNewbies, totalVerified, totalSuspended int, newbiesByShard, verifiedByShard, suspendedByShard map[common.ShardId]int) *big.Int {
	return nil
}

//verif:override c06c idena-go/blockchain.applyDiscriminationStakeThreshold vC06cThreshold
func vC06cThreshold(app *appstate.AppState, threshold *big.Int) {}

//verif:override c06c (*idena-go/config.ValidationConfig).GetNextValidationTime vC06cNextValidation
func vC06cNextValidation(cfg *config.ValidationConfig, validationTime time.Time, networkSize int, up12 bool) time.Time {
	return validationTime
}

// the state as far as nonce records go: one dust account; resets and epoch switches are recorded
//verif:override c06c (*idena-go/core/state.StateDB).IterateOverAccounts vC06cIterateAccounts
func vC06cIterateAccounts(s *state.StateDB, callback func(addr common.Address, account state.Account)) {
	callback(state.VAddr(1), state.Account{Nonce: 3, Epoch: 5, Balance: big.NewInt(1)})
}

//verif:override c06c (*idena-go/core/state.StateDB).ClearAccount vC06cClearAccount
func vC06cClearAccount(s *state.StateDB, addr common.Address) { vC06cLog("nonceReset") }

//verif:override c06c (*idena-go/core/state.StateDB).IncEpoch vC06cIncEpoch
func vC06cIncEpoch(s *state.StateDB) { vC06cLog("incEpoch") }

//verif:override c06c (*idena-go/core/validators.ValidatorsCache).NetworkSize vC06cNetworkSize
func vC06cNetworkSize(v *validators.ValidatorsCache) int { return 100 }

func vC06cCheck() {
	pending := false
	for _, e := range vC06cEvents {
		switch e {
		case "nonceReset":
			pending = true
			vCover("reset")
		case "incEpoch":
			pending = false
		}
	}
	vAssert(!pending, "a block resets the nonce record of an account only together with the switch to the next epoch")
}

//verif:obligation C06.c tier=quick use=c06c covers=reset,end bounds=proposed-and-empty-block,every-flag-combination(symbolic-32-bit),validation-result-failed-or-not,one-dust-account;every-step-other-than-applyNewEpoch/clearDustAccounts-is-a-recorder
func H_C06c() {
	st := state.VNewStateDB()
	st.VPutGlobal(state.Global{Epoch: 5, EpochBlock: 90, EmptyBlocksByShards: map[common.ShardId][]common.Address{}, ShardSizes: map[common.ShardId]uint32{}})
	app := &appstate.AppState{State: st, IdentityState: state.VNewIdentityStateDB(), ValidatorsCache: &validators.ValidatorsCache{}}
	cons := *config.GetDefaultConsensusConfig()
	cfg := &config.Config{Consensus: &cons, Validation: &config.ValidationConfig{}}
	failed := vBool("validationFailed")
	chain := &Blockchain{config: cfg, appState: app}
	chain.applyNewEpochFn = func(height uint64, a *appstate.AppState, c collector.StatsCollector) types.TotalValidationResult {
		return types.TotalValidationResult{IdentitiesCount: 100, Failed: failed}
	}
	flags := types.BlockFlag(vU32("block.flags"))
	vC06cEvents = nil
	if vBool("emptyBlock") {
		block := &types.Block{Header: &types.Header{EmptyBlockHeader: &types.EmptyBlockHeader{Height: 100, Flags: flags}}, Body: &types.Body{}}
		chain.applyEmptyBlockOnState(app, block, nil)
	} else {
		block := &types.Block{Header: &types.Header{ProposedHeader: &types.ProposedHeader{Height: 100, Flags: flags}}, Body: &types.Body{}}
		chain.applyBlockOnState(app, block, big.NewInt(0), big.NewInt(0), 0, &blockRewardCtx{}, nil)
	}
	vC06cCheck()
	vCover("end")
}
