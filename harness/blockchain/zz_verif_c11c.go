package blockchain

import (
	"github.com/idena-network/idena-go/blockchain/types"
	"github.com/idena-network/idena-go/common"
	"github.com/idena-network/idena-go/common/eventbus"
	"github.com/idena-network/idena-go/core/appstate"
	"github.com/idena-network/idena-go/core/state"
	"github.com/idena-network/idena-go/database"
)

// C11.c: the identity diff a node STORES AND SERVES for a height, after a reorganisation at that height.
// Real insertBlock (header, canonical hash, diff), real ResetTo, real insertBlock of the replacing block, real
// GetIdentityDiff over the real Repo on a harness key/value store.

//verif:override c11c (*idena-go/core/appstate.AppState).ResetTo vC11cStateResetTo
func vC11cStateResetTo(s *appstate.AppState, height uint64) error { return nil }

//verif:override c11c (*idena-go/blockchain.indexer).HandleBlockTransactions vC11cIndexer
func vC11cIndexer(i *indexer, header *types.Header, txs []*types.Transaction) {}

//verif:override c11c (*idena-go/blockchain/types.Header).Hash vC11cHeaderHash
func vC11cHeaderHash(h *types.Header) common.Hash {
	var r common.Hash
	r[0], r[1] = byte(h.Height()), byte(h.Time())
	return r
}

func vC11cDiff(name string) *state.IdentityStateDiff {
	d := &state.IdentityStateDiff{}
	if vBool(name + ".nonEmpty") {
		d.Values = append(d.Values, &state.IdentityStateDiffValue{Address: state.VAddr(vU8(name + ".addr")), Deleted: vBool(name + ".deleted"), Value: []byte{vU8(name + ".value")}})
	}
	return d
}

func vC11cBlock(height uint64, tag int64) *types.Block {
	return &types.Block{Header: &types.Header{EmptyBlockHeader: &types.EmptyBlockHeader{Height: height, Time: tag}}, Body: &types.Body{}}
}

//verif:obligation C11.c tier=quick use=c11c covers=staleCandidate,replacedNonEmpty,end bounds=one-reorganisation-of-depth-1:block-at-height-h(diff-empty-or-1-entry),ResetTo(h-1),replacing-block-at-h(diff-empty-or-1-entry)
func H_C11c() {
	repo := database.NewRepo(database.VNewMem())
	chain := &Blockchain{repo: repo, ipfs: vC03Ipfs{}, bus: eventbus.New(), appState: &appstate.AppState{}, indexer: &indexer{}}
	vC03 = &vC03Env{}
	h := uint64(8)
	parent := vC11cBlock(h-1, 1)
	chain.insertHeader(parent.Header)
	chain.setCurrentHead(parent.Header)

	abandoned, d1 := vC11cBlock(h, 2), vC11cDiff("abandoned")
	vAssert(chain.insertBlock(abandoned, d1, nil) == nil, "the block of the abandoned branch is stored")
	_, err := chain.ResetTo(h - 1)
	vAssert(err == nil, "the node switches back to the common ancestor")
	canonical, d2 := vC11cBlock(h, 3), vC11cDiff("canonical")
	vAssert(chain.insertBlock(canonical, d2, nil) == nil, "the block of the canonical branch is stored")

	served := chain.GetIdentityDiff(h)
	if d2.Empty() {
		if !d1.Empty() {
			vCover("staleCandidate")
		}
		vAssert(served.Empty(), "after a reorganisation the node serves no identity diff for a canonical block whose diff is empty (not the abandoned block's)")
	} else {
		vCover("replacedNonEmpty")
		vAssert(!served.Empty() && len(served.Values) == 1 && served.Values[0].Address == d2.Values[0].Address &&
			served.Values[0].Deleted == d2.Values[0].Deleted, "after a reorganisation the node serves the canonical block's identity diff")
	}
	vCover("end")
}
