package blockchain

import (
	"errors"
	"math/big"

	"github.com/idena-network/idena-go/blockchain/types"
	"github.com/idena-network/idena-go/common"
	"github.com/idena-network/idena-go/config"
	"github.com/idena-network/idena-go/core/appstate"
	"github.com/idena-network/idena-go/core/validators"
	"github.com/idena-network/idena-go/database"
	"github.com/idena-network/idena-go/stats/collector"
	"github.com/idena-network/idena-go/vm"
	"github.com/idena-network/idena-go/vm/wasm"
)

// C02: the building path (filterTxs) and the validating path (processTxs) see the SAME per-transaction
// behaviour - verdict, fee, gas, receipt are a function of (transaction, number of transactions applied
// before it), which is exactly the assumption "the per-transaction transition is deterministic" (C01) and
// nothing more. Everything else - skipping, gas cap, totals, receipts, when to stop - is the real code.
type vC02Env struct {
	txs      []*types.Transaction
	valid    [][]bool     // [tx][applied so far]
	applyErr [][]bool
	fee      []*big.Int
	gas      []int
	hasRcpt  []bool
	rcptGas  []uint64
	applied  int
	log      []int // transactions applied, in order
}

var vC02 *vC02Env

func (e *vC02Env) idx(tx *types.Transaction) int {
	for i, t := range e.txs {
		if t == tx {
			return i
		}
	}
	return -1
}

//verif:override c02 idena-go/blockchain/validation.ValidateTx vC02ValidateTx
func vC02ValidateTx(app *appstate.AppState, tx *types.Transaction, minFeePerGas *big.Int, txType int) error {
	i := vC02.idx(tx)
	if !vC02.valid[i][vC02.applied] {
		return errors.New("invalid tx")
	}
	return nil
}

//verif:override c02 (*idena-go/blockchain.Blockchain).applyTxOnState vC02Apply
func vC02Apply(chain *Blockchain, tx *types.Transaction, ctx *txExecutionContext) (*big.Int, *types.TxReceipt, task, error) {
	i := vC02.idx(tx)
	if vC02.applyErr[i][vC02.applied] {
		return nil, nil, nil, errors.New("apply failed")
	}
	vC02.applied++
	vC02.log = append(vC02.log, i)
	var r *types.TxReceipt
	if vC02.hasRcpt[i] {
		r = &types.TxReceipt{GasUsed: vC02.rcptGas[i], Success: true}
		r.TxHash[0] = byte(i + 1)
	}
	return new(big.Int).Set(vC02.fee[i]), r, nil, nil
}

//verif:override c02 idena-go/blockchain/fee.CalculateGas vC02Gas
func vC02Gas(tx *types.Transaction) int { return vC02.gas[vC02.idx(tx)] }

//verif:override c02 idena-go/vm.NewVmImpl vC02NewVm
func vC02NewVm(app *appstate.AppState, p wasm.BlockHeaderProvider, head *types.Header, sc collector.StatsCollector, cfg *config.Config) vm.VM {
	return nil
}

//verif:override c02 (*idena-go/database.Repo).IsInBlackList vC02False
func vC02False(r *database.Repo, h common.Hash) bool { return false }

//verif:override c02 (*idena-go/database.Repo).HasApplyingTxLog vC02False2
func vC02False2(r *database.Repo, h common.Hash) bool { return false }

//verif:override c02 (*idena-go/database.Repo).AddToBlackList vC02Nop
func vC02Nop(r *database.Repo, h common.Hash) {}

//verif:override c02 (*idena-go/database.Repo).StartApplyingTx vC02Nop2
func vC02Nop2(r *database.Repo, h common.Hash) {}

//verif:override c02 (*idena-go/database.Repo).FinishApplyingTx vC02Nop3
func vC02Nop3(r *database.Repo, h common.Hash) {}

//verif:override c02 (*idena-go/core/validators.ValidatorsCache).NetworkSize vC02NetworkSize
func vC02NetworkSize(v *validators.ValidatorsCache) int { return 100 }

func vC02Run(n int, legacy bool) {
	e := &vC02Env{}
	for i := 0; i < n; i++ {
		tx := &types.Transaction{Type: types.SendTx, AccountNonce: uint32(i + 1), Tips: vBig("tips")}
		vAssume(tx.Tips.Sign() >= 0)
		var h common.Hash
		h[0] = byte(i + 1)
		types.VSetHash(tx, h)
		var sender common.Address
		sender[0], sender[19] = 0xa0, byte(i+1)
		types.VSetSender(tx, sender)
		e.txs = append(e.txs, tx)
		var v, ae []bool
		for k := 0; k <= n; k++ {
			v = append(v, vBool("tx.valid"))
			ae = append(ae, vBool("tx.applyError"))
		}
		e.valid, e.applyErr = append(e.valid, v), append(e.applyErr, ae)
		f := vBig("tx.fee")
		vAssume(f.Sign() >= 0)
		e.fee = append(e.fee, f)
		g := vU32("tx.gas")
		vAssume(g >= 1)
		vAssume(g <= 1<<24)
		e.gas = append(e.gas, int(g))
		e.hasRcpt = append(e.hasRcpt, vBool("tx.hasReceipt"))
		rg := vU32("tx.receiptGas")
		vAssume(rg <= 1<<24)
		e.rcptGas = append(e.rcptGas, uint64(rg))
	}
	vC02 = e
	cons := *config.GetDefaultConsensusConfig()
	if legacy {
		cons.EnableUpgrade10, cons.EnableUpgrade11, cons.EnableUpgrade12 = false, false, false
	} else {
		cons.EnableUpgrade10 = true
		cons.EnableUpgrade11 = vBool("upgrade11")
		cons.EnableUpgrade12 = vBool("upgrade12")
		vAssume(vImplies(cons.EnableUpgrade12, cons.EnableUpgrade11))
	}
	app := &appstate.AppState{ValidatorsCache: &validators.ValidatorsCache{}}
	chain := &Blockchain{config: &config.Config{Consensus: &cons}, appState: app, repo: &database.Repo{}}
	header := &types.ProposedHeader{Height: 10}

	// ---- the proposer builds ----
	body, fee1, tips1, rcpts1, gas1 := chain.filterTxs(app, e.txs, header)
	builtLog := append([]int{}, e.log...)
	if len(body) > 0 {
		vCover("nonEmpty")
	}
	if len(body) < n {
		vCover("skippedSome")
	}
	// ---- a validator processes the proposed body from the same prior state ----
	e.applied, e.log = 0, nil
	fee2, tips2, rcpts2, _, gas2, err := chain.processTxs(body, &txsExecutionContext{appState: app, header: &types.Header{ProposedHeader: header}})
	vAssert(err == nil, "the transaction list an honest proposer builds passes block validation")
	if err == nil {
		vAssert(fee1.Cmp(fee2) == 0 && tips1.Cmp(tips2) == 0 && gas1 == gas2, "builder and validator agree on total fee, tips and used gas")
		vAssert(len(rcpts1) == len(rcpts2), "builder and validator produce the same number of receipts (the receipts CID in the header matches)")
		for i := range rcpts1 {
			if i < len(rcpts2) {
				vAssert(rcpts1[i].TxHash == rcpts2[i].TxHash && rcpts1[i].GasUsed == rcpts2[i].GasUsed, "builder and validator produce the same receipts in the same order")
			}
		}
		vAssert(len(builtLog) == len(e.log), "the state the proposer ends with has seen exactly the transactions of the body (roots in the header match)")
	}
	vCover("end")
}

//verif:obligation C02.a tier=quick use=c02 bounds=<=2-candidate-transactions,arbitrary-per-tx-verdict/fee/gas/receipt,upgrade-10-on,upgrade-11/12-symbolic covers=nonEmpty,skippedSome
// filterTxs followed by processTxs (real code) for every candidate list of two transactions.
func H_C02a() { vC02Run(2, false) }

//verif:obligation C02.b tier=thorough use=c02 bounds=3-candidate-transactions covers=nonEmpty,skippedSome
func H_C02b() { vC02Run(3, false) }

//verif:obligation C02.c tier=quick use=c02 bounds=<=2-candidate-transactions,legacy-rule-set(upgrade-10-off) covers=nonEmpty,skippedSome
// The same under the legacy rule set (EnableUpgrade10 = false, still GetDefaultConsensusConfig()).
func H_C02c() { vC02Run(2, true) }
