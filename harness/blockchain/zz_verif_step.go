package blockchain

import (
	"math/big"

	"github.com/idena-network/idena-go/blockchain/types"
	"github.com/idena-network/idena-go/blockchain/validation"
	"github.com/idena-network/idena-go/common"
	"github.com/idena-network/idena-go/config"
	"github.com/idena-network/idena-go/core/appstate"
	"github.com/idena-network/idena-go/core/state"
	"github.com/idena-network/idena-go/log"
)

// One-step harness H_step (DESIGN §4): an arbitrary transaction of one type, validated as part of
// a block (real per-type validator; the type-independent prefix of ValidateTx enters as its proven
// post-condition, see C12.a.prefix.*) and applied by the real applyTxOnState on an arbitrary,
// lazily materialised world state. Serves C04.a, C05, C06.a and C12.b.

type vStepResult struct {
	w       *appstate.VWorld
	tx      *types.Transaction
	applied bool
	fee     *big.Int
	cfg     *config.Config
	addrs   []common.Address
}

func vStep(t types.TxType) *vStepResult {
	appstate.VNoNilAmounts = true
	validation.VFewPayloadShapes = true
	w, tx, _, _ := validation.VSetup(t)
	kind := validation.InBlockTx
	vAssume(validation.VPrefixPost(w, tx, kind))
	vAssume(validation.VPrefixPostInBlock(w, tx))
	r := &vStepResult{w: w, tx: tx, addrs: []common.Address{w.S, w.T, w.G, w.F}}
	if err := validation.VRunValidator(t, w.App, tx, kind); err != nil {
		vCover("rejected")
		return r
	}
	cfg := validation.VAppConfig()
	chain := &Blockchain{config: cfg, appState: w.App, log: log.New()}
	ctx := &txExecutionContext{appState: w.App, height: w.App.State.EpochBlock() + uint64(vU32("heightAboveEpochBlock")), blockInsertion: true}
	fee, _, _, err := chain.applyTxOnState(tx, ctx)
	if err != nil {
		vCover("applyError")
		return r
	}
	vCover("applied")
	r.applied, r.fee, r.cfg = true, fee, cfg
	return r
}

func vBigOrZero(x *big.Int) *big.Int {
	if x == nil {
		return new(big.Int)
	}
	return x
}

// Post-conditions quantify over the objects the step touched: an untouched account or identity is
// unchanged by construction (it was never even materialised).

// vPostInvariant: no negative balance or stake part; locked and replenished parts within the stake.
func (r *vStepResult) assertInvariant() {
	st := r.w.App.State
	for i, a := range r.addrs {
		k := byte(i + 1)
		if state.VL.AccDone[k] {
			vAssert(st.GetBalance(a).Sign() >= 0, "[C04] balance >= 0 after the transaction")
		}
		if state.VL.IdDone[k] {
			stake := st.GetStakeBalance(a)
			vAssert(stake.Sign() >= 0, "[C04] stake >= 0 after the transaction")
			locked, repl := st.GetLockedStake(a), st.GetReplenishedStakeBalance(a)
			vAssert(vAnd(locked.Sign() >= 0, locked.Cmp(stake) <= 0), "[C04] 0 <= locked stake <= stake after the transaction")
			vAssert(vAnd(repl.Sign() >= 0, repl.Cmp(stake) <= 0), "[C04] 0 <= replenished stake <= stake after the transaction")
		}
	}
}

// assertNoMint: the total of balances and stakes over every object the transaction touched does not grow.
func (r *vStepResult) assertNoMint() {
	st := r.w.App.State
	pre, post := new(big.Int), new(big.Int)
	for i, a := range r.addrs {
		k := byte(i + 1)
		if state.VL.AccDone[k] {
			pre.Add(pre, state.VL.PreBalance[k])
			post.Add(post, st.GetBalance(a))
		}
		if state.VL.IdDone[k] {
			pre.Add(pre, state.VL.PreStake[k])
			post.Add(post, st.GetStakeBalance(a))
		}
	}
	vAssert(post.Cmp(pre) <= 0, "[C04] a transaction never increases the total of balances and stakes")
	vAssert(r.fee.Sign() >= 0, "[C04] fee >= 0")
}

// assertOnlySignerPays (C05): nobody but the signer loses balance or stake, apart from the named exceptions.
func (r *vStepResult) assertOnlySignerPays() {
	st := r.w.App.State
	for i, a := range r.addrs {
		if a == r.w.S {
			continue
		}
		k := byte(i + 1)
		exception := false
		if r.tx.To != nil && *r.tx.To == a {
			switch r.tx.Type {
			case types.KillInviteeTx:
				// an inviter terminating its own invitee
				exception = true
				vAssert(state.VL.PreInviterIs(k, r.w.S), "[C05] KillInviteeTx only hits an invitee of the signer")
			case types.KillDelegatorTx:
				exception = true
				vAssert(state.VL.PreDelegateeIs(k, r.w.S), "[C05] KillDelegatorTx only hits a delegator of the signer")
			}
		}
		if !exception {
			if state.VL.AccDone[k] {
				vAssert(st.GetBalance(a).Cmp(state.VL.PreBalance[k]) >= 0, "[C05] balance of an address other than the signer is not lowered")
			}
			if state.VL.IdDone[k] {
				vAssert(st.GetStakeBalance(a).Cmp(state.VL.PreStake[k]) >= 0, "[C05] stake of an address other than the signer is not lowered")
			}
		}
	}
}

// assertNonce (C06.a): applied => signed for this epoch with the next nonce; nonce/epoch advanced.
func (r *vStepResult) assertNonce() {
	st := r.w.App.State
	ge := st.Epoch()
	vAssert(r.tx.Epoch == ge, "[C06] an applied transaction is signed for the current epoch")
	cur := state.VL.PreNonce[1]
	if !state.VL.PreAccPresent[1] || state.VL.PreEpoch[1] < ge {
		cur = 0
	}
	vAssert(r.tx.AccountNonce == cur+1, "[C06] an applied transaction carries the sender's next nonce of this epoch")
	vAssert(st.GetNonce(r.w.S) == r.tx.AccountNonce && st.GetEpoch(r.w.S) == ge, "[C06] nonce and epoch of the sender advance to the transaction's")
}

// assertRegistry (C10.c): the stored validator registry (identity state) agrees with the identity ledger for every
// identity the transaction touched, given that it did before: registered as validated exactly when the status
// is Newbie, Verified or Human.
func (r *vStepResult) assertRegistry() {
	st, ist := r.w.App.State, r.w.App.IdentityState
	for i, a := range r.addrs {
		k := byte(i + 1)
		if !state.VL.IdDone[k] {
			continue
		}
		knownBefore := state.VL.ApDone[k]
		postRegistered := ist.IsValidated(a)
		preRegistered := postRegistered // an entry the transaction never looked at is unchanged
		if knownBefore {
			preRegistered = vAnd(state.VL.PreApPresent[k], state.VL.PreApproved[k].Validated)
		}
		preStatus := state.Undefined
		if state.VL.PreIdPresent[k] {
			preStatus = state.VL.PreState[k]
		}
		vAssume(preRegistered == preStatus.NewbieOrBetter())
		vAssert(postRegistered == st.GetIdentityState(a).NewbieOrBetter(), "[C10] an address is registered as validated exactly when its identity status is Newbie, Verified or Human")
	}
}

func vStepAll(t types.TxType) {
	r := vStep(t)
	if r.applied {
		r.assertRegistry()
		r.assertNonce()
		r.assertInvariant()
		r.assertNoMint()
		r.assertOnlySignerPays()
	}
	vCover("end")
}

//verif:obligation C04.a.send tier=quick use=world bounds=world(S,T,G,F),in-block,arbitrary-tx-fields covers=applied,rejected
//verif:obligation C05.a.send tier=quick use=world bounds=world(S,T,G,F),in-block,arbitrary-tx-fields covers=applied,rejected
//verif:obligation C06.a.send tier=quick use=world bounds=world(S,T,G,F),in-block,arbitrary-tx-fields covers=applied,rejected
//verif:obligation C10.c.send tier=quick use=world bounds=world(S,T,G,F),in-block,arbitrary-tx-fields covers=applied,rejected
//verif:obligation C12.b.send tier=quick use=world bounds=world(S,T,G,F),in-block,arbitrary-tx-fields covers=applied,rejected
// One step with a SendTx: real per-type validator + real applyTxOnState from an arbitrary world. Applied =>
// nonce/epoch lemma (C06), no negative balance/stake part (C04), total of balances+stakes not increased
// (C04), nobody but the signer loses funds apart from the named exceptions (C05); no panic (C12.b).
// Each property's run decides its own tagged assertions; panics are decided in every run.
func H_Step_SendTx() { vStepAll(types.SendTx) }

//verif:obligation C04.a.activation tier=quick use=world bounds=world(S,T,G,F),in-block,arbitrary-tx-fields covers=applied,rejected
//verif:obligation C05.a.activation tier=thorough use=world bounds=world(S,T,G,F),in-block,arbitrary-tx-fields covers=applied,rejected
//verif:obligation C06.a.activation tier=thorough use=world bounds=world(S,T,G,F),in-block,arbitrary-tx-fields covers=applied,rejected
//verif:obligation C10.c.activation tier=thorough use=world bounds=world(S,T,G,F),in-block,arbitrary-tx-fields covers=applied,rejected
//verif:obligation C12.b.activation tier=quick use=world bounds=world(S,T,G,F),in-block,arbitrary-tx-fields covers=applied,rejected
// One step with a ActivationTx: real per-type validator + real applyTxOnState from an arbitrary world. Applied =>
// nonce/epoch lemma (C06), no negative balance/stake part (C04), total of balances+stakes not increased
// (C04), nobody but the signer loses funds apart from the named exceptions (C05); no panic (C12.b).
// Each property's run decides its own tagged assertions; panics are decided in every run.
func H_Step_ActivationTx() { vStepAll(types.ActivationTx) }

//verif:obligation C04.a.invite tier=quick use=world bounds=world(S,T,G,F),in-block,arbitrary-tx-fields covers=applied,rejected
//verif:obligation C05.a.invite tier=quick use=world bounds=world(S,T,G,F),in-block,arbitrary-tx-fields covers=applied,rejected
//verif:obligation C06.a.invite tier=quick use=world bounds=world(S,T,G,F),in-block,arbitrary-tx-fields covers=applied,rejected
//verif:obligation C10.c.invite tier=thorough use=world bounds=world(S,T,G,F),in-block,arbitrary-tx-fields covers=applied,rejected
//verif:obligation C12.b.invite tier=quick use=world bounds=world(S,T,G,F),in-block,arbitrary-tx-fields covers=applied,rejected
// One step with a InviteTx: real per-type validator + real applyTxOnState from an arbitrary world. Applied =>
// nonce/epoch lemma (C06), no negative balance/stake part (C04), total of balances+stakes not increased
// (C04), nobody but the signer loses funds apart from the named exceptions (C05); no panic (C12.b).
// Each property's run decides its own tagged assertions; panics are decided in every run.
func H_Step_InviteTx() { vStepAll(types.InviteTx) }

//verif:obligation C04.a.kill tier=quick use=world bounds=world(S,T,G,F),in-block,arbitrary-tx-fields covers=applied,rejected
//verif:obligation C05.a.kill tier=quick use=world bounds=world(S,T,G,F),in-block,arbitrary-tx-fields covers=applied,rejected
//verif:obligation C06.a.kill tier=quick use=world bounds=world(S,T,G,F),in-block,arbitrary-tx-fields covers=applied,rejected
//verif:obligation C10.c.kill tier=quick use=world bounds=world(S,T,G,F),in-block,arbitrary-tx-fields covers=applied,rejected
//verif:obligation C12.b.kill tier=quick use=world bounds=world(S,T,G,F),in-block,arbitrary-tx-fields covers=applied,rejected
// One step with a KillTx: real per-type validator + real applyTxOnState from an arbitrary world. Applied =>
// nonce/epoch lemma (C06), no negative balance/stake part (C04), total of balances+stakes not increased
// (C04), nobody but the signer loses funds apart from the named exceptions (C05); no panic (C12.b).
// Each property's run decides its own tagged assertions; panics are decided in every run.
func H_Step_KillTx() { vStepAll(types.KillTx) }

//verif:obligation C04.a.submitflip tier=quick use=world tv=off bounds=world(S,T,G,F),in-block,arbitrary-tx-fields covers=applied,rejected
//verif:obligation C05.a.submitflip tier=quick use=world tv=off bounds=world(S,T,G,F),in-block,arbitrary-tx-fields covers=applied,rejected
//verif:obligation C06.a.submitflip tier=quick use=world tv=off bounds=world(S,T,G,F),in-block,arbitrary-tx-fields covers=applied,rejected
//verif:obligation C10.c.submitflip tier=thorough use=world tv=off bounds=world(S,T,G,F),in-block,arbitrary-tx-fields covers=applied,rejected
//verif:obligation C12.b.submitflip tier=quick use=world tv=off bounds=world(S,T,G,F),in-block,arbitrary-tx-fields covers=applied,rejected
// One step with a SubmitFlipTx: real per-type validator + real applyTxOnState from an arbitrary world. Applied =>
// nonce/epoch lemma (C06), no negative balance/stake part (C04), total of balances+stakes not increased
// (C04), nobody but the signer loses funds apart from the named exceptions (C05); no panic (C12.b).
// Each property's run decides its own tagged assertions; panics are decided in every run.
func H_Step_SubmitFlipTx() { vStepAll(types.SubmitFlipTx) }

//verif:obligation C04.a.answershash tier=quick use=world bounds=world(S,T,G,F),in-block,arbitrary-tx-fields covers=applied,rejected
//verif:obligation C05.a.answershash tier=quick use=world bounds=world(S,T,G,F),in-block,arbitrary-tx-fields covers=applied,rejected
//verif:obligation C06.a.answershash tier=quick use=world bounds=world(S,T,G,F),in-block,arbitrary-tx-fields covers=applied,rejected
//verif:obligation C10.c.answershash tier=thorough use=world bounds=world(S,T,G,F),in-block,arbitrary-tx-fields covers=applied,rejected
//verif:obligation C12.b.answershash tier=quick use=world bounds=world(S,T,G,F),in-block,arbitrary-tx-fields covers=applied,rejected
// One step with a SubmitAnswersHashTx: real per-type validator + real applyTxOnState from an arbitrary world. Applied =>
// nonce/epoch lemma (C06), no negative balance/stake part (C04), total of balances+stakes not increased
// (C04), nobody but the signer loses funds apart from the named exceptions (C05); no panic (C12.b).
// Each property's run decides its own tagged assertions; panics are decided in every run.
func H_Step_SubmitAnswersHashTx() { vStepAll(types.SubmitAnswersHashTx) }

//verif:obligation C04.a.onlinestatus tier=quick use=world bounds=world(S,T,G,F),in-block,arbitrary-tx-fields covers=applied,rejected
//verif:obligation C05.a.onlinestatus tier=quick use=world bounds=world(S,T,G,F),in-block,arbitrary-tx-fields covers=applied,rejected
//verif:obligation C06.a.onlinestatus tier=quick use=world bounds=world(S,T,G,F),in-block,arbitrary-tx-fields covers=applied,rejected
//verif:obligation C10.c.onlinestatus tier=quick use=world bounds=world(S,T,G,F),in-block,arbitrary-tx-fields covers=applied,rejected
//verif:obligation C12.b.onlinestatus tier=quick use=world bounds=world(S,T,G,F),in-block,arbitrary-tx-fields covers=applied,rejected
// One step with a OnlineStatusTx: real per-type validator + real applyTxOnState from an arbitrary world. Applied =>
// nonce/epoch lemma (C06), no negative balance/stake part (C04), total of balances+stakes not increased
// (C04), nobody but the signer loses funds apart from the named exceptions (C05); no panic (C12.b).
// Each property's run decides its own tagged assertions; panics are decided in every run.
func H_Step_OnlineStatusTx() { vStepAll(types.OnlineStatusTx) }

//verif:obligation C04.a.killinvitee tier=thorough use=world bounds=world(S,T,G,F),in-block,arbitrary-tx-fields covers=applied,rejected
//verif:obligation C05.a.killinvitee tier=quick use=world bounds=world(S,T,G,F),in-block,arbitrary-tx-fields covers=applied,rejected
//verif:obligation C06.a.killinvitee tier=thorough use=world bounds=world(S,T,G,F),in-block,arbitrary-tx-fields covers=applied,rejected
//verif:obligation C10.c.killinvitee tier=thorough use=world bounds=world(S,T,G,F),in-block,arbitrary-tx-fields covers=applied,rejected
//verif:obligation C12.b.killinvitee tier=thorough use=world bounds=world(S,T,G,F),in-block,arbitrary-tx-fields covers=applied,rejected
// One step with a KillInviteeTx: real per-type validator + real applyTxOnState from an arbitrary world. Applied =>
// nonce/epoch lemma (C06), no negative balance/stake part (C04), total of balances+stakes not increased
// (C04), nobody but the signer loses funds apart from the named exceptions (C05); no panic (C12.b).
// Each property's run decides its own tagged assertions; panics are decided in every run.
func H_Step_KillInviteeTx() { vStepAll(types.KillInviteeTx) }

//verif:obligation C04.a.changegod tier=quick use=world bounds=world(S,T,G,F),in-block,arbitrary-tx-fields covers=applied,rejected
//verif:obligation C05.a.changegod tier=quick use=world bounds=world(S,T,G,F),in-block,arbitrary-tx-fields covers=applied,rejected
//verif:obligation C06.a.changegod tier=quick use=world bounds=world(S,T,G,F),in-block,arbitrary-tx-fields covers=applied,rejected
//verif:obligation C10.c.changegod tier=thorough use=world bounds=world(S,T,G,F),in-block,arbitrary-tx-fields covers=applied,rejected
//verif:obligation C12.b.changegod tier=quick use=world bounds=world(S,T,G,F),in-block,arbitrary-tx-fields covers=applied,rejected
// One step with a ChangeGodAddressTx: real per-type validator + real applyTxOnState from an arbitrary world. Applied =>
// nonce/epoch lemma (C06), no negative balance/stake part (C04), total of balances+stakes not increased
// (C04), nobody but the signer loses funds apart from the named exceptions (C05); no panic (C12.b).
// Each property's run decides its own tagged assertions; panics are decided in every run.
func H_Step_ChangeGodAddressTx() { vStepAll(types.ChangeGodAddressTx) }

//verif:obligation C04.a.burn tier=quick use=world bounds=world(S,T,G,F),in-block,arbitrary-tx-fields covers=applied,rejected
//verif:obligation C05.a.burn tier=quick use=world bounds=world(S,T,G,F),in-block,arbitrary-tx-fields covers=applied,rejected
//verif:obligation C06.a.burn tier=quick use=world bounds=world(S,T,G,F),in-block,arbitrary-tx-fields covers=applied,rejected
//verif:obligation C10.c.burn tier=thorough use=world bounds=world(S,T,G,F),in-block,arbitrary-tx-fields covers=applied,rejected
//verif:obligation C12.b.burn tier=quick use=world bounds=world(S,T,G,F),in-block,arbitrary-tx-fields covers=applied,rejected
// One step with a BurnTx: real per-type validator + real applyTxOnState from an arbitrary world. Applied =>
// nonce/epoch lemma (C06), no negative balance/stake part (C04), total of balances+stakes not increased
// (C04), nobody but the signer loses funds apart from the named exceptions (C05); no panic (C12.b).
// Each property's run decides its own tagged assertions; panics are decided in every run.
func H_Step_BurnTx() { vStepAll(types.BurnTx) }

//verif:obligation C04.a.changeprofile tier=quick use=world bounds=world(S,T,G,F),in-block,arbitrary-tx-fields covers=applied,rejected
//verif:obligation C05.a.changeprofile tier=quick use=world bounds=world(S,T,G,F),in-block,arbitrary-tx-fields covers=applied,rejected
//verif:obligation C06.a.changeprofile tier=quick use=world bounds=world(S,T,G,F),in-block,arbitrary-tx-fields covers=applied,rejected
//verif:obligation C10.c.changeprofile tier=thorough use=world bounds=world(S,T,G,F),in-block,arbitrary-tx-fields covers=applied,rejected
//verif:obligation C12.b.changeprofile tier=quick use=world bounds=world(S,T,G,F),in-block,arbitrary-tx-fields covers=applied,rejected
// One step with a ChangeProfileTx: real per-type validator + real applyTxOnState from an arbitrary world. Applied =>
// nonce/epoch lemma (C06), no negative balance/stake part (C04), total of balances+stakes not increased
// (C04), nobody but the signer loses funds apart from the named exceptions (C05); no panic (C12.b).
// Each property's run decides its own tagged assertions; panics are decided in every run.
func H_Step_ChangeProfileTx() { vStepAll(types.ChangeProfileTx) }

//verif:obligation C04.a.deleteflip tier=quick use=world bounds=world(S,T,G,F),in-block,arbitrary-tx-fields covers=applied,rejected
//verif:obligation C05.a.deleteflip tier=quick use=world bounds=world(S,T,G,F),in-block,arbitrary-tx-fields covers=applied,rejected
//verif:obligation C06.a.deleteflip tier=quick use=world bounds=world(S,T,G,F),in-block,arbitrary-tx-fields covers=applied,rejected
//verif:obligation C10.c.deleteflip tier=thorough use=world bounds=world(S,T,G,F),in-block,arbitrary-tx-fields covers=applied,rejected
//verif:obligation C12.b.deleteflip tier=quick use=world bounds=world(S,T,G,F),in-block,arbitrary-tx-fields covers=applied,rejected
// One step with a DeleteFlipTx: real per-type validator + real applyTxOnState from an arbitrary world. Applied =>
// nonce/epoch lemma (C06), no negative balance/stake part (C04), total of balances+stakes not increased
// (C04), nobody but the signer loses funds apart from the named exceptions (C05); no panic (C12.b).
// Each property's run decides its own tagged assertions; panics are decided in every run.
func H_Step_DeleteFlipTx() { vStepAll(types.DeleteFlipTx) }

//verif:obligation C04.a.delegate tier=quick use=world bounds=world(S,T,G,F),in-block,arbitrary-tx-fields covers=applied,rejected
//verif:obligation C05.a.delegate tier=quick use=world bounds=world(S,T,G,F),in-block,arbitrary-tx-fields covers=applied,rejected
//verif:obligation C06.a.delegate tier=quick use=world bounds=world(S,T,G,F),in-block,arbitrary-tx-fields covers=applied,rejected
//verif:obligation C10.c.delegate tier=quick use=world bounds=world(S,T,G,F),in-block,arbitrary-tx-fields covers=applied,rejected
//verif:obligation C12.b.delegate tier=quick use=world bounds=world(S,T,G,F),in-block,arbitrary-tx-fields covers=applied,rejected
// One step with a DelegateTx: real per-type validator + real applyTxOnState from an arbitrary world. Applied =>
// nonce/epoch lemma (C06), no negative balance/stake part (C04), total of balances+stakes not increased
// (C04), nobody but the signer loses funds apart from the named exceptions (C05); no panic (C12.b).
// Each property's run decides its own tagged assertions; panics are decided in every run.
func H_Step_DelegateTx() { vStepAll(types.DelegateTx) }

//verif:obligation C04.a.undelegate tier=quick use=world bounds=world(S,T,G,F),in-block,arbitrary-tx-fields covers=applied,rejected
//verif:obligation C05.a.undelegate tier=quick use=world bounds=world(S,T,G,F),in-block,arbitrary-tx-fields covers=applied,rejected
//verif:obligation C06.a.undelegate tier=quick use=world bounds=world(S,T,G,F),in-block,arbitrary-tx-fields covers=applied,rejected
//verif:obligation C10.c.undelegate tier=quick use=world bounds=world(S,T,G,F),in-block,arbitrary-tx-fields covers=applied,rejected
//verif:obligation C12.b.undelegate tier=quick use=world bounds=world(S,T,G,F),in-block,arbitrary-tx-fields covers=applied,rejected
// One step with a UndelegateTx: real per-type validator + real applyTxOnState from an arbitrary world. Applied =>
// nonce/epoch lemma (C06), no negative balance/stake part (C04), total of balances+stakes not increased
// (C04), nobody but the signer loses funds apart from the named exceptions (C05); no panic (C12.b).
// Each property's run decides its own tagged assertions; panics are decided in every run.
func H_Step_UndelegateTx() { vStepAll(types.UndelegateTx) }

//verif:obligation C04.a.killdelegator tier=quick use=world bounds=world(S,T,G,F),in-block,arbitrary-tx-fields covers=applied,rejected
//verif:obligation C05.a.killdelegator tier=quick use=world bounds=world(S,T,G,F),in-block,arbitrary-tx-fields covers=applied,rejected
//verif:obligation C06.a.killdelegator tier=thorough use=world bounds=world(S,T,G,F),in-block,arbitrary-tx-fields covers=applied,rejected
//verif:obligation C10.c.killdelegator tier=thorough use=world bounds=world(S,T,G,F),in-block,arbitrary-tx-fields covers=applied,rejected
//verif:obligation C12.b.killdelegator tier=thorough use=world bounds=world(S,T,G,F),in-block,arbitrary-tx-fields covers=applied,rejected
// One step with a KillDelegatorTx: real per-type validator + real applyTxOnState from an arbitrary world. Applied =>
// nonce/epoch lemma (C06), no negative balance/stake part (C04), total of balances+stakes not increased
// (C04), nobody but the signer loses funds apart from the named exceptions (C05); no panic (C12.b).
// Each property's run decides its own tagged assertions; panics are decided in every run.
func H_Step_KillDelegatorTx() { vStepAll(types.KillDelegatorTx) }

//verif:obligation C04.a.storetoipfs tier=quick use=world tv=off bounds=world(S,T,G,F),in-block,arbitrary-tx-fields covers=applied,rejected
//verif:obligation C05.a.storetoipfs tier=quick use=world tv=off bounds=world(S,T,G,F),in-block,arbitrary-tx-fields covers=applied,rejected
//verif:obligation C06.a.storetoipfs tier=quick use=world tv=off bounds=world(S,T,G,F),in-block,arbitrary-tx-fields covers=applied,rejected
//verif:obligation C10.c.storetoipfs tier=thorough use=world tv=off bounds=world(S,T,G,F),in-block,arbitrary-tx-fields covers=applied,rejected
//verif:obligation C12.b.storetoipfs tier=quick use=world tv=off bounds=world(S,T,G,F),in-block,arbitrary-tx-fields covers=applied,rejected
// One step with a StoreToIpfsTx: real per-type validator + real applyTxOnState from an arbitrary world. Applied =>
// nonce/epoch lemma (C06), no negative balance/stake part (C04), total of balances+stakes not increased
// (C04), nobody but the signer loses funds apart from the named exceptions (C05); no panic (C12.b).
// Each property's run decides its own tagged assertions; panics are decided in every run.
func H_Step_StoreToIpfsTx() { vStepAll(types.StoreToIpfsTx) }

//verif:obligation C04.a.replenish tier=quick use=world bounds=world(S,T,G,F),in-block,arbitrary-tx-fields covers=applied,rejected
//verif:obligation C05.a.replenish tier=quick use=world bounds=world(S,T,G,F),in-block,arbitrary-tx-fields covers=applied,rejected
//verif:obligation C06.a.replenish tier=quick use=world bounds=world(S,T,G,F),in-block,arbitrary-tx-fields covers=applied,rejected
//verif:obligation C10.c.replenish tier=thorough use=world bounds=world(S,T,G,F),in-block,arbitrary-tx-fields covers=applied,rejected
//verif:obligation C12.b.replenish tier=quick use=world bounds=world(S,T,G,F),in-block,arbitrary-tx-fields covers=applied,rejected
// One step with a ReplenishStakeTx: real per-type validator + real applyTxOnState from an arbitrary world. Applied =>
// nonce/epoch lemma (C06), no negative balance/stake part (C04), total of balances+stakes not increased
// (C04), nobody but the signer loses funds apart from the named exceptions (C05); no panic (C12.b).
// Each property's run decides its own tagged assertions; panics are decided in every run.
func H_Step_ReplenishStakeTx() { vStepAll(types.ReplenishStakeTx) }

//verif:obligation C04.a.shortanswers tier=quick use=world bounds=world(S,T,G,F),in-block,arbitrary-tx-fields covers=applied,rejected
//verif:obligation C05.a.shortanswers tier=quick use=world bounds=world(S,T,G,F),in-block,arbitrary-tx-fields covers=applied,rejected
//verif:obligation C06.a.shortanswers tier=quick use=world bounds=world(S,T,G,F),in-block,arbitrary-tx-fields covers=applied,rejected
//verif:obligation C10.c.shortanswers tier=thorough use=world bounds=world(S,T,G,F),in-block,arbitrary-tx-fields covers=applied,rejected
//verif:obligation C12.b.shortanswers tier=quick use=world bounds=world(S,T,G,F),in-block,arbitrary-tx-fields covers=applied,rejected
// One step with a SubmitShortAnswersTx: real per-type validator + real applyTxOnState from an arbitrary world. Applied =>
// nonce/epoch lemma (C06), no negative balance/stake part (C04), total of balances+stakes not increased
// (C04), nobody but the signer loses funds apart from the named exceptions (C05); no panic (C12.b).
// Each property's run decides its own tagged assertions; panics are decided in every run.
func H_Step_SubmitShortAnswersTx() { vStepAll(types.SubmitShortAnswersTx) }

//verif:obligation C04.a.longanswers tier=quick use=world,wvrf bounds=world(S,T,G,F),in-block,arbitrary-tx-fields covers=applied,rejected
//verif:obligation C05.a.longanswers tier=quick use=world,wvrf bounds=world(S,T,G,F),in-block,arbitrary-tx-fields covers=applied,rejected
//verif:obligation C06.a.longanswers tier=quick use=world,wvrf bounds=world(S,T,G,F),in-block,arbitrary-tx-fields covers=applied,rejected
//verif:obligation C10.c.longanswers tier=thorough use=world,wvrf bounds=world(S,T,G,F),in-block,arbitrary-tx-fields covers=applied,rejected
//verif:obligation C12.b.longanswers tier=quick use=world,wvrf bounds=world(S,T,G,F),in-block,arbitrary-tx-fields covers=applied,rejected
// One step with a SubmitLongAnswersTx: real per-type validator + real applyTxOnState from an arbitrary world. Applied =>
// nonce/epoch lemma (C06), no negative balance/stake part (C04), total of balances+stakes not increased
// (C04), nobody but the signer loses funds apart from the named exceptions (C05); no panic (C12.b).
// Each property's run decides its own tagged assertions; panics are decided in every run.
func H_Step_SubmitLongAnswersTx() { vStepAll(types.SubmitLongAnswersTx) }

//verif:obligation C04.a.evidence tier=quick use=world bounds=world(S,T,G,F),in-block,arbitrary-tx-fields covers=applied,rejected
//verif:obligation C05.a.evidence tier=quick use=world bounds=world(S,T,G,F),in-block,arbitrary-tx-fields covers=applied,rejected
//verif:obligation C06.a.evidence tier=quick use=world bounds=world(S,T,G,F),in-block,arbitrary-tx-fields covers=applied,rejected
//verif:obligation C10.c.evidence tier=thorough use=world bounds=world(S,T,G,F),in-block,arbitrary-tx-fields covers=applied,rejected
//verif:obligation C12.b.evidence tier=quick use=world bounds=world(S,T,G,F),in-block,arbitrary-tx-fields covers=applied,rejected
// One step with a EvidenceTx: real per-type validator + real applyTxOnState from an arbitrary world. Applied =>
// nonce/epoch lemma (C06), no negative balance/stake part (C04), total of balances+stakes not increased
// (C04), nobody but the signer loses funds apart from the named exceptions (C05); no panic (C12.b).
// Each property's run decides its own tagged assertions; panics are decided in every run.
func H_Step_EvidenceTx() { vStepAll(types.EvidenceTx) }

