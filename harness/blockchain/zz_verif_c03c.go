package blockchain

import (
	"errors"

	"github.com/idena-network/idena-go/blockchain/types"
	"github.com/idena-network/idena-go/common"
	"github.com/idena-network/idena-go/common/eventbus"
	"github.com/idena-network/idena-go/core/appstate"
	"github.com/idena-network/idena-go/core/mempool"
	"github.com/idena-network/idena-go/core/state"
	"github.com/idena-network/idena-go/stats/collector"
	dbm "github.com/tendermint/tm-db"
)

// C03.c: the insertion path (real AddBlock). Block validation, the tree roots after the diffs were applied,
// the commit and the storage of the block are arbitrary verdicts that record when they were asked; what is
// decided is the ORDER and the rollback: a rejected block never reaches commit or storage, the canonical
// state it may have touched is reset, an accepted block went through every check.

type vC03cEnv struct {
	validateOK, commitOK, storeOK bool
	root, idRoot                  byte
	events                        []string
}

var vC03c *vC03cEnv

func (e *vC03cEnv) log(s string) { e.events = append(e.events, s) }
func (e *vC03cEnv) has(s string) bool {
	for _, x := range e.events {
		if x == s {
			return true
		}
	}
	return false
}

//verif:override c03c (*idena-go/blockchain.Blockchain).ValidateBlock vC03cValidateBlock
func vC03cValidateBlock(chain *Blockchain, block *types.Block, check *appstate.AppState, sc collector.StatsCollector) (*blockInsertionResult, error) {
	vC03c.log("validate")
	if !vC03c.validateOK {
		return nil, errors.New("block is invalid")
	}
	return &blockInsertionResult{}, nil
}

//verif:override c03c (*idena-go/core/state.StateDB).AddDiff vC03cAddDiff
func vC03cAddDiff(s *state.StateDB, diffs []*state.StateTreeDiff) { vC03c.log("touchState") }

//verif:override c03c (*idena-go/core/state.IdentityStateDB).AddDiff vC03cAddIdentityDiff
func vC03cAddIdentityDiff(s *state.IdentityStateDB, height uint64, diff *state.IdentityStateDiff) {
	vC03c.log("touchIdentityState")
}

//verif:override c03c (*idena-go/core/state.StateDB).Root vC03cRoot
func vC03cRoot(s *state.StateDB) common.Hash { return common.Hash{vC03c.root} }

//verif:override c03c (*idena-go/core/state.IdentityStateDB).Root vC03cIdentityRoot
func vC03cIdentityRoot(s *state.IdentityStateDB) common.Hash { return common.Hash{vC03c.idRoot} }

//verif:override c03c (*idena-go/core/appstate.AppState).Reset vC03cReset
func vC03cReset(s *appstate.AppState) { vC03c.log("reset") }

//verif:override c03c (*idena-go/core/appstate.AppState).CommitTrees vC03cCommitTrees
func vC03cCommitTrees(s *appstate.AppState, block *types.Block, diff *state.IdentityStateDiff) error {
	vC03c.log("commit")
	if !vC03c.commitOK {
		return errors.New("commit failed")
	}
	return nil
}

//verif:override c03c (*idena-go/blockchain.Blockchain).insertBlock vC03cInsertBlock
func vC03cInsertBlock(chain *Blockchain, block *types.Block, diff *state.IdentityStateDiff, receipts types.TxReceipts) error {
	vC03c.log("store")
	if !vC03c.storeOK {
		return errors.New("ipfs is down")
	}
	return nil
}

//verif:override c03c (*idena-go/core/mempool.TxPool).ResetTo vC03cPoolReset
func vC03cPoolReset(p *mempool.TxPool, block *types.Block) { vC03c.log("after") }

//verif:override c03c (*idena-go/blockchain.Blockchain).tryUpgrade vC03cTryUpgrade
func vC03cTryUpgrade(chain *Blockchain, h *types.Header) {}

//verif:override c03c idena-go/blockchain.applyHotfixToState vC03cHotfix
func vC03cHotfix(app *appstate.AppState, prev *types.Header) {}

//verif:override c03c (*idena-go/blockchain.Blockchain).RemovePreliminaryHead vC03cRemovePreliminary
func vC03cRemovePreliminary(chain *Blockchain, batch dbm.Batch) {}

//verif:override c03c (*idena-go/blockchain.Blockchain).CoinbaseShard vC03cCoinbaseShard
func vC03cCoinbaseShard(chain *Blockchain) (common.ShardId, error) { return 1, nil }

//verif:override c03c (*idena-go/blockchain/types.Header).Hash vC03cHeaderHash
func vC03cHeaderHash(h *types.Header) common.Hash { return common.Hash{byte(h.Height()), 0x77} }

//verif:obligation C03.c tier=quick use=c03c covers=accepted,rejectedEarly,rolledBack,end bounds=proposed-block-at-any-height-with-any-parent-link-and-roots(1-symbolic-byte-each),verdicts-of-validation/commit/storage-arbitrary,flags-without-NewGenesis
func H_C03c() {
	e := &vC03cEnv{validateOK: vBool("validateOK"), commitOK: vBool("commitOK"), storeOK: vBool("storeOK"), root: vU8("state.root"), idRoot: vU8("identityState.root")}
	vC03c = e
	head := &types.Header{EmptyBlockHeader: &types.EmptyBlockHeader{Height: 7}}
	p := &types.ProposedHeader{Height: vU64("block.height"), Flags: types.BlockFlag(vU32("block.flags"))}
	vAssume(!p.Flags.HasFlag(types.NewGenesis))
	p.ParentHash = common.Hash{vU8("block.parentHash0"), vU8("block.parentHash1")}
	p.Root, p.IdentityRoot = common.Hash{vU8("block.root")}, common.Hash{vU8("block.identityRoot")}
	block := &types.Block{Header: &types.Header{ProposedHeader: p}, Body: &types.Body{}}
	chain := &Blockchain{Head: head, appState: &appstate.AppState{State: &state.StateDB{}, IdentityState: &state.IdentityStateDB{}}, txpool: &mempool.TxPool{}, bus: eventbus.New()}

	err := chain.AddBlock(block, &appstate.AppState{}, collector.NewStatsCollector())

	linked := p.Height == 8 && p.ParentHash == vC03cHeaderHash(head)
	rootsOK := p.Root == common.Hash{e.root} && p.IdentityRoot == common.Hash{e.idRoot}
	if err == nil {
		vCover("accepted")
		vAssert(linked, "[C03] an inserted block extends the current head (height and parent hash)")
		vAssert(e.validateOK && e.has("validate"), "[C03] an inserted block passed block validation")
		vAssert(rootsOK, "[C03] an inserted block's roots equal the roots of the canonical state after its diffs were applied")
		vAssert(e.has("commit") && e.commitOK && e.has("store") && e.storeOK, "[C03] an inserted block was committed and stored")
	} else {
		if !e.has("validate") {
			vCover("rejectedEarly")
		}
		vAssert(vOr(!e.has("store"), vAnd(linked, vAnd(e.validateOK, vAnd(rootsOK, e.commitOK)))), "[C03] a block that fails a check never reaches the block store")
		vAssert(vOr(!e.has("commit"), vAnd(linked, vAnd(e.validateOK, rootsOK))), "[C03] a block that fails a check is never committed to the canonical state")
		if vAnd(e.has("touchState"), vOr(!rootsOK, !e.commitOK)) {
			vCover("rolledBack")
			vAssert(e.has("reset"), "[C03] a rejected block whose diffs were applied to the canonical state is rolled back")
		}
		vAssert(!e.has("after"), "[C03] a rejected block triggers no follow-up (pool reset, events)")
	}
	vCover("end")
}
