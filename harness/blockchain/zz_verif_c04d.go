package blockchain

import (
	"math/big"

	"github.com/idena-network/idena-go/blockchain/types"
	"github.com/idena-network/idena-go/blockchain/validation"
	"github.com/idena-network/idena-go/core/appstate"
	"github.com/idena-network/idena-go/core/state"
	"github.com/idena-network/idena-go/stats/collector"
)

// C04.d: issuance of a proposed block. Real applyBlockRewards (fee burn, splitReward, calculatePenalty, pool
// sub-identity) over the lazily materialised world; the final committee's share is an arbitrary amount within
// its budget. The proposer side never receives more than what is left of the block reward plus the fees and
// tips the block's senders already paid, and nothing goes negative.

var vC04dCommittee *big.Int

//verif:override c04d (*idena-go/blockchain.Blockchain).rewardFinalCommittee vC04dRewardCommittee
func vC04dRewardCommittee(chain *Blockchain, app *appstate.AppState, block *types.Block, ctx *blockRewardCtx, sc collector.StatsCollector) *big.Int {
	return vC04dCommittee // what was paid to the committee (its own bound is the function's subject, not this step's)
}

//verif:obligation C04.d tier=quick use=world,c04d covers=pool,penalty,end bounds=world(S,T,G,F):proposer-any-tracked-address-or-pool-with-sub-identity,total-fee-and-tips-arbitrary-non-negative-integers,committee-share-in-[0,block-reward+committee-reward],penalty-coins-or-seconds
func H_C04d() {
	w := appstate.VBuildWorld(state.VShape{})
	st := w.App.State
	w.PubKeyAddr = state.VAddr(1) // the proposer is S
	cfg := validation.VConfigFor()
	chain := &Blockchain{config: cfg, appState: w.App}
	totalFee, totalTips := vBig("totalFee"), vBig("totalTips")
	vAssume(totalFee.Sign() >= 0)
	vAssume(totalTips.Sign() >= 0)
	budget := new(big.Int).Add(cfg.Consensus.BlockReward, cfg.Consensus.FinalCommitteeReward)
	vC04dCommittee = vBig("committeeShare")
	vAssume(vC04dCommittee.Sign() >= 0)
	vAssume(vC04dCommittee.Cmp(budget) <= 0)
	block := &types.Block{Header: &types.Header{ProposedHeader: &types.ProposedHeader{Height: 10, Time: vI64("block.time"), ProposerPubKey: []byte{4, 1}}}, Body: &types.Body{}}
	// everything the step may touch: the proposer and the sub-identity a pool's reward stake goes to
	pre := new(big.Int)
	tracked := [4]byte{1, 2, 3, 4}
	for _, k := range tracked {
		a := state.VAddr(k)
		pre.Add(pre, st.GetBalance(a))
		pre.Add(pre, st.GetStakeBalance(a))
	}

	chain.applyBlockRewards(totalFee, totalTips, w.App, block, &blockRewardCtx{}, nil)

	post := new(big.Int)
	for _, k := range tracked {
		a := state.VAddr(k)
		b, s := st.GetBalance(a), st.GetStakeBalance(a)
		vAssert(b.Sign() >= 0 && s.Sign() >= 0, "[C04] no negative balance or stake after the block reward")
		post.Add(post, b)
		post.Add(post, s)
	}
	if w.App.ValidatorsCache.IsPool(state.VAddr(1)) {
		vCover("pool")
	}
	growth := new(big.Int).Sub(post, pre)
	limit := new(big.Int).Sub(budget, vC04dCommittee)
	limit.Add(limit, totalFee)
	limit.Add(limit, totalTips)
	vAssert(growth.Sign() >= 0, "[C04] the block reward step takes nothing away from balances and stakes")
	vAssert(growth.Cmp(limit) <= 0, "[C04] the proposer side of a block grows the total by at most the block reward left by the committee plus the fees and tips already paid by the block's senders")
	if growth.Cmp(limit) < 0 {
		vCover("penalty") // burnt fee share, or a penalty written off
	}
	vCover("end")
}
