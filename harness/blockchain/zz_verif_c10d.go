package blockchain

import (
	"github.com/idena-network/idena-go/blockchain/types"
	"github.com/idena-network/idena-go/common"
	"github.com/idena-network/idena-go/core/appstate"
	"github.com/idena-network/idena-go/core/state"
	"github.com/idena-network/idena-go/core/validators"
)

// C10.d: "only validated identities or pools are online". The block step that takes a pool offline when it
// loses its last member (real switchPoolsToOffline over a real validators cache built by its own Load, which
// still shows the pool as it was before this block): a pool whose owner is not itself validated and whose
// delegators ALL leave in this identity-update block - by undelegation or by termination, in any mix - is
// stored as offline afterwards; a pool that keeps a member stays as it was.
//verif:obligation C10.d tier=quick use=c10 covers=emptied,kept,end bounds=pool(owner-validated-or-not,online)+2-validated-delegators,each-leaving-by-undelegation|termination|staying,identity-update-flag-set-or-not
func H_C10d() {
	pool, d1, d2 := validators.VAddrN(9), validators.VAddrN(1), validators.VAddrN(2)
	ownerValidated := vBool("owner.validated")
	p1, p2 := pool, pool
	entries := []validators.VEntry{
		{Addr: d1, Data: state.ApprovedIdentity{Validated: true, Delegatee: &p1}, Present: true},
		{Addr: d2, Data: state.ApprovedIdentity{Validated: true, Delegatee: &p2}, Present: true},
		{Addr: pool, Data: state.ApprovedIdentity{Validated: ownerValidated, Online: true}, Present: true},
	}
	vc := validators.VNewCache(entries, validators.VAddrN(0x55))
	ist := state.VNewIdentityStateDB()
	ist.VPutApproved(pool, state.ApprovedIdentity{Validated: ownerValidated, Online: true})
	st := state.VNewStateDB()
	app := &appstate.AppState{State: st, IdentityState: ist, ValidatorsCache: vc}
	var undelegations []*state.Delegation
	lost := 0
	for _, d := range []common.Address{d1, d2} {
		switch vChoice("delegator.fate", 3) {
		case 0: // stays
			id := state.Identity{State: state.Verified}
			pp := pool
			state.VIdentityHidden(&id, &pp, false, 0, nil, nil, 0, 0)
			st.VPutIdentity(d, id)
		case 1: // its undelegation is applied by this block
			undelegations = append(undelegations, &state.Delegation{Delegator: d, Delegatee: pool})
			st.VPutIdentity(d, state.Identity{State: state.Verified})
			lost++
		case 2: // terminated in this block while delegated
			id := state.Identity{State: state.Killed}
			pp := pool
			state.VIdentityHidden(&id, &pp, false, 0, nil, nil, 0, 0)
			st.VPutIdentity(d, id)
			lost++
		}
	}
	flags := types.BlockFlag(0)
	update := vBool("block.identityUpdate")
	if update {
		flags = types.IdentityUpdate
	}
	block := &types.Block{Header: &types.Header{ProposedHeader: &types.ProposedHeader{Height: 10, Flags: flags}}, Body: &types.Body{}}
	chain := &Blockchain{}

	chain.switchPoolsToOffline(app, undelegations, block)

	remaining := 2 - lost
	if ownerValidated {
		remaining++
	}
	if vAnd(update, vAnd(lost > 0, remaining == 0)) {
		vCover("emptied")
		vAssert(!ist.IsOnline(pool), "a pool that loses all its members in an identity-update block is stored as offline (only validated identities or pools are online)")
	} else {
		vCover("kept")
		vAssert(ist.IsOnline(pool), "a pool that keeps a member (or a block that is no identity update) leaves the pool's online flag alone")
	}
	vCover("end")
}
