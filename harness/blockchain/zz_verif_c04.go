package blockchain

import (
	"math/big"

	"github.com/idena-network/idena-go/config"
)

var vZero = big.NewInt(0)

func vNonNeg(x *big.Int) bool { return x.Sign() >= 0 }

//verif:obligation C04.b tier=quick bounds=all-non-negative-integers,all-uint16-seconds,all-int64-timestamps covers=nopenalty,seconds,coins
// calculatePenalty (real code, math/big as mathematical integers): for every non-negative
// reward split and penalty, outputs are non-negative, nothing is created
// (balanceAdd+stakeAdd+penaltySub == balanceAppend+stakeAppend in the coin branch,
// nothing paid in the seconds branch) and the seconds written off never exceed the seconds owed.
func H_C04b() {
	balanceAppend, stakeAppend := vBig("balanceAppend"), vBig("stakeAppend")
	vAssume(vNonNeg(balanceAppend) && vNonNeg(stakeAppend))
	var penalty *big.Int
	if vBool("hasPenalty") {
		penalty = vBig("penalty")
		vAssume(vNonNeg(penalty))
	}
	secs := vU16("penaltySeconds")
	pts, bts := vI64("penaltyTimestamp"), vI64("blockTimestamp")
	total := new(big.Int).Add(balanceAppend, stakeAppend)

	balanceAdd, stakeAdd, penaltySub, secondsSub := calculatePenalty(balanceAppend, stakeAppend, penalty, secs, pts, bts)

	vObserve("balanceAdd", balanceAdd)
	vObserve("stakeAdd", stakeAdd)
	vObserve("penaltySub", penaltySub)
	vObserve("secondsSub", secondsSub)
	vAssert(balanceAdd != nil && stakeAdd != nil, "results are non-nil")
	vAssert(vNonNeg(balanceAdd), "balanceAdd >= 0")
	vAssert(vNonNeg(stakeAdd), "stakeAdd >= 0")
	vAssert(secondsSub <= secs, "seconds written off <= seconds owed")
	paid := new(big.Int).Add(balanceAdd, stakeAdd)
	if penaltySub != nil {
		vAssert(vNonNeg(penaltySub), "penaltySub >= 0")
		vAssert(penalty != nil && penaltySub.Cmp(penalty) <= 0, "penalty written off <= penalty owed")
		paid.Add(paid, penaltySub)
	}
	if secs > 0 {
		vCover("seconds")
		vAssert(paid.Sign() == 0 && penaltySub == nil, "seconds penalty: nothing is paid, coin penalty untouched")
	} else if penalty == nil || penalty.Sign() == 0 {
		vCover("nopenalty")
		vAssert(balanceAdd.Cmp(balanceAppend) == 0 && stakeAdd.Cmp(stakeAppend) == 0 && secondsSub == 0, "no penalty: reward passes through")
	} else {
		vCover("coins")
		vAssert(paid.Cmp(total) == 0, "coin penalty: balanceAdd+stakeAdd+penaltySub == balanceAppend+stakeAppend")
	}
	vAssert(paid.Cmp(total) <= 0, "never pays out more than was appended")
	vCover("end")
}

//verif:obligation C04.c tier=quick bounds=all-non-negative-rewards,both-identity-classes,default-consensus-config covers=newbie,other
// splitReward (real code incl. shopspring/decimal from source): reward+stake == total, both >= 0.
func H_C04c() {
	total := vBig("totalReward")
	vAssume(vNonNeg(total))
	conf := config.GetDefaultConsensusConfig()
	newbie := vBool("isNewbie")
	reward, stake := splitReward(total, newbie, conf)
	vObserve("reward", reward)
	vObserve("stake", stake)
	if newbie {
		vCover("newbie")
	} else {
		vCover("other")
	}
	vAssert(vNonNeg(reward), "reward >= 0")
	vAssert(vNonNeg(stake), "stake >= 0")
	vAssert(new(big.Int).Add(reward, stake).Cmp(total) == 0, "reward + stake == total")
	vCover("end")
}
