package attachments

// documented preconditions of the encodings and the empty object a decoder starts from

func vC18Pre_ShortAnswerAttachment(x *ShortAnswerAttachment) {}
func vC18New_ShortAnswerAttachment() *ShortAnswerAttachment { return new(ShortAnswerAttachment) }

func vC18Pre_LongAnswerAttachment(x *LongAnswerAttachment) {}
func vC18New_LongAnswerAttachment() *LongAnswerAttachment { return new(LongAnswerAttachment) }

func vC18Pre_FlipSubmitAttachment(x *FlipSubmitAttachment) {}
func vC18New_FlipSubmitAttachment() *FlipSubmitAttachment { return new(FlipSubmitAttachment) }

func vC18Pre_OnlineStatusAttachment(x *OnlineStatusAttachment) {}
func vC18New_OnlineStatusAttachment() *OnlineStatusAttachment { return new(OnlineStatusAttachment) }

func vC18Pre_BurnAttachment(x *BurnAttachment) {}
func vC18New_BurnAttachment() *BurnAttachment { return new(BurnAttachment) }

func vC18Pre_ChangeProfileAttachment(x *ChangeProfileAttachment) {}
func vC18New_ChangeProfileAttachment() *ChangeProfileAttachment { return new(ChangeProfileAttachment) }

func vC18Pre_DeleteFlipAttachment(x *DeleteFlipAttachment) {}
func vC18New_DeleteFlipAttachment() *DeleteFlipAttachment { return new(DeleteFlipAttachment) }

func vC18Pre_CallContractAttachment(x *CallContractAttachment) {}
func vC18New_CallContractAttachment() *CallContractAttachment { return new(CallContractAttachment) }

func vC18Pre_DeployContractAttachment(x *DeployContractAttachment) {}
func vC18New_DeployContractAttachment() *DeployContractAttachment { return new(DeployContractAttachment) }

func vC18Pre_TerminateContractAttachment(x *TerminateContractAttachment) {}
func vC18New_TerminateContractAttachment() *TerminateContractAttachment { return new(TerminateContractAttachment) }

func vC18Pre_StoreToIpfsAttachment(x *StoreToIpfsAttachment) {}
func vC18New_StoreToIpfsAttachment() *StoreToIpfsAttachment { return new(StoreToIpfsAttachment) }
