package attachments

// C18.a / C18.b for the encodable objects of this package - see harness/blockchain/types/zz_verif_c18.go.

//verif:gen ShortAnswerAttachment LongAnswerAttachment FlipSubmitAttachment OnlineStatusAttachment BurnAttachment ChangeProfileAttachment DeleteFlipAttachment CallContractAttachment DeployContractAttachment TerminateContractAttachment StoreToIpfsAttachment

//verif:obligation C18.a.att.shortanswerattachment tier=quick bigblob=1 covers=end bounds=arbitrary-ShortAnswerAttachment(every-field-by-type,byte-strings-and-lists<=1(quick)/2(thorough),optional-fields-nil-or-set,non-negative-integers)
func H_C18_ShortAnswerAttachment() {
	var x ShortAnswerAttachment
	VFill_ShortAnswerAttachment(&x, "x")
	vC18Pre_ShortAnswerAttachment(&x)
	b, err := x.ToBytes()
	vAssert(err == nil, "[C18] ShortAnswerAttachment encodes")
	y := vC18New_ShortAnswerAttachment()
	vAssert(y.FromBytes(b) == nil, "[C18] ShortAnswerAttachment decodes from its own encoding")
	vAssert(VEq_ShortAnswerAttachment(&x, y), "[C18] ShortAnswerAttachment decodes from its own encoding to an equal object")
	b2, _ := y.ToBytes()
	vAssert(vProtoSame(b, b2), "[C18] a decoded ShortAnswerAttachment re-encodes to identical bytes")
	vCover("end")
}

//verif:obligation C18.a.att.longanswerattachment tier=quick bigblob=1 covers=end bounds=arbitrary-LongAnswerAttachment(every-field-by-type,byte-strings-and-lists<=1(quick)/2(thorough),optional-fields-nil-or-set,non-negative-integers)
func H_C18_LongAnswerAttachment() {
	var x LongAnswerAttachment
	VFill_LongAnswerAttachment(&x, "x")
	vC18Pre_LongAnswerAttachment(&x)
	b, err := x.ToBytes()
	vAssert(err == nil, "[C18] LongAnswerAttachment encodes")
	y := vC18New_LongAnswerAttachment()
	vAssert(y.FromBytes(b) == nil, "[C18] LongAnswerAttachment decodes from its own encoding")
	vAssert(VEq_LongAnswerAttachment(&x, y), "[C18] LongAnswerAttachment decodes from its own encoding to an equal object")
	b2, _ := y.ToBytes()
	vAssert(vProtoSame(b, b2), "[C18] a decoded LongAnswerAttachment re-encodes to identical bytes")
	vCover("end")
}

//verif:obligation C18.a.att.flipsubmitattachment tier=quick bigblob=1 covers=end bounds=arbitrary-FlipSubmitAttachment(every-field-by-type,byte-strings-and-lists<=1(quick)/2(thorough),optional-fields-nil-or-set,non-negative-integers)
func H_C18_FlipSubmitAttachment() {
	var x FlipSubmitAttachment
	VFill_FlipSubmitAttachment(&x, "x")
	vC18Pre_FlipSubmitAttachment(&x)
	b, err := x.ToBytes()
	vAssert(err == nil, "[C18] FlipSubmitAttachment encodes")
	y := vC18New_FlipSubmitAttachment()
	vAssert(y.FromBytes(b) == nil, "[C18] FlipSubmitAttachment decodes from its own encoding")
	vAssert(VEq_FlipSubmitAttachment(&x, y), "[C18] FlipSubmitAttachment decodes from its own encoding to an equal object")
	b2, _ := y.ToBytes()
	vAssert(vProtoSame(b, b2), "[C18] a decoded FlipSubmitAttachment re-encodes to identical bytes")
	vCover("end")
}

//verif:obligation C18.a.att.onlinestatusattachment tier=quick bigblob=1 covers=end bounds=arbitrary-OnlineStatusAttachment(every-field-by-type,byte-strings-and-lists<=1(quick)/2(thorough),optional-fields-nil-or-set,non-negative-integers)
func H_C18_OnlineStatusAttachment() {
	var x OnlineStatusAttachment
	VFill_OnlineStatusAttachment(&x, "x")
	vC18Pre_OnlineStatusAttachment(&x)
	b, err := x.ToBytes()
	vAssert(err == nil, "[C18] OnlineStatusAttachment encodes")
	y := vC18New_OnlineStatusAttachment()
	vAssert(y.FromBytes(b) == nil, "[C18] OnlineStatusAttachment decodes from its own encoding")
	vAssert(VEq_OnlineStatusAttachment(&x, y), "[C18] OnlineStatusAttachment decodes from its own encoding to an equal object")
	b2, _ := y.ToBytes()
	vAssert(vProtoSame(b, b2), "[C18] a decoded OnlineStatusAttachment re-encodes to identical bytes")
	vCover("end")
}

//verif:obligation C18.a.att.burnattachment tier=quick bigblob=1 covers=end bounds=arbitrary-BurnAttachment(every-field-by-type,byte-strings-and-lists<=1(quick)/2(thorough),optional-fields-nil-or-set,non-negative-integers)
func H_C18_BurnAttachment() {
	var x BurnAttachment
	VFill_BurnAttachment(&x, "x")
	vC18Pre_BurnAttachment(&x)
	b, err := x.ToBytes()
	vAssert(err == nil, "[C18] BurnAttachment encodes")
	y := vC18New_BurnAttachment()
	vAssert(y.FromBytes(b) == nil, "[C18] BurnAttachment decodes from its own encoding")
	vAssert(VEq_BurnAttachment(&x, y), "[C18] BurnAttachment decodes from its own encoding to an equal object")
	b2, _ := y.ToBytes()
	vAssert(vProtoSame(b, b2), "[C18] a decoded BurnAttachment re-encodes to identical bytes")
	vCover("end")
}

//verif:obligation C18.a.att.changeprofileattachment tier=quick bigblob=1 covers=end bounds=arbitrary-ChangeProfileAttachment(every-field-by-type,byte-strings-and-lists<=1(quick)/2(thorough),optional-fields-nil-or-set,non-negative-integers)
func H_C18_ChangeProfileAttachment() {
	var x ChangeProfileAttachment
	VFill_ChangeProfileAttachment(&x, "x")
	vC18Pre_ChangeProfileAttachment(&x)
	b, err := x.ToBytes()
	vAssert(err == nil, "[C18] ChangeProfileAttachment encodes")
	y := vC18New_ChangeProfileAttachment()
	vAssert(y.FromBytes(b) == nil, "[C18] ChangeProfileAttachment decodes from its own encoding")
	vAssert(VEq_ChangeProfileAttachment(&x, y), "[C18] ChangeProfileAttachment decodes from its own encoding to an equal object")
	b2, _ := y.ToBytes()
	vAssert(vProtoSame(b, b2), "[C18] a decoded ChangeProfileAttachment re-encodes to identical bytes")
	vCover("end")
}

//verif:obligation C18.a.att.deleteflipattachment tier=quick bigblob=1 covers=end bounds=arbitrary-DeleteFlipAttachment(every-field-by-type,byte-strings-and-lists<=1(quick)/2(thorough),optional-fields-nil-or-set,non-negative-integers)
func H_C18_DeleteFlipAttachment() {
	var x DeleteFlipAttachment
	VFill_DeleteFlipAttachment(&x, "x")
	vC18Pre_DeleteFlipAttachment(&x)
	b, err := x.ToBytes()
	vAssert(err == nil, "[C18] DeleteFlipAttachment encodes")
	y := vC18New_DeleteFlipAttachment()
	vAssert(y.FromBytes(b) == nil, "[C18] DeleteFlipAttachment decodes from its own encoding")
	vAssert(VEq_DeleteFlipAttachment(&x, y), "[C18] DeleteFlipAttachment decodes from its own encoding to an equal object")
	b2, _ := y.ToBytes()
	vAssert(vProtoSame(b, b2), "[C18] a decoded DeleteFlipAttachment re-encodes to identical bytes")
	vCover("end")
}

//verif:obligation C18.a.att.callcontractattachment tier=quick bigblob=1 covers=end bounds=arbitrary-CallContractAttachment(every-field-by-type,byte-strings-and-lists<=1(quick)/2(thorough),optional-fields-nil-or-set,non-negative-integers)
func H_C18_CallContractAttachment() {
	var x CallContractAttachment
	VFill_CallContractAttachment(&x, "x")
	vC18Pre_CallContractAttachment(&x)
	b, err := x.ToBytes()
	vAssert(err == nil, "[C18] CallContractAttachment encodes")
	y := vC18New_CallContractAttachment()
	vAssert(y.FromBytes(b) == nil, "[C18] CallContractAttachment decodes from its own encoding")
	vAssert(VEq_CallContractAttachment(&x, y), "[C18] CallContractAttachment decodes from its own encoding to an equal object")
	b2, _ := y.ToBytes()
	vAssert(vProtoSame(b, b2), "[C18] a decoded CallContractAttachment re-encodes to identical bytes")
	vCover("end")
}

//verif:obligation C18.a.att.deploycontractattachment tier=quick bigblob=1 covers=end bounds=arbitrary-DeployContractAttachment(every-field-by-type,byte-strings-and-lists<=1(quick)/2(thorough),optional-fields-nil-or-set,non-negative-integers)
func H_C18_DeployContractAttachment() {
	var x DeployContractAttachment
	VFill_DeployContractAttachment(&x, "x")
	vC18Pre_DeployContractAttachment(&x)
	b, err := x.ToBytes()
	vAssert(err == nil, "[C18] DeployContractAttachment encodes")
	y := vC18New_DeployContractAttachment()
	vAssert(y.FromBytes(b) == nil, "[C18] DeployContractAttachment decodes from its own encoding")
	vAssert(VEq_DeployContractAttachment(&x, y), "[C18] DeployContractAttachment decodes from its own encoding to an equal object")
	b2, _ := y.ToBytes()
	vAssert(vProtoSame(b, b2), "[C18] a decoded DeployContractAttachment re-encodes to identical bytes")
	vCover("end")
}

//verif:obligation C18.a.att.terminatecontractattachment tier=quick bigblob=1 covers=end bounds=arbitrary-TerminateContractAttachment(every-field-by-type,byte-strings-and-lists<=1(quick)/2(thorough),optional-fields-nil-or-set,non-negative-integers)
func H_C18_TerminateContractAttachment() {
	var x TerminateContractAttachment
	VFill_TerminateContractAttachment(&x, "x")
	vC18Pre_TerminateContractAttachment(&x)
	b, err := x.ToBytes()
	vAssert(err == nil, "[C18] TerminateContractAttachment encodes")
	y := vC18New_TerminateContractAttachment()
	vAssert(y.FromBytes(b) == nil, "[C18] TerminateContractAttachment decodes from its own encoding")
	vAssert(VEq_TerminateContractAttachment(&x, y), "[C18] TerminateContractAttachment decodes from its own encoding to an equal object")
	b2, _ := y.ToBytes()
	vAssert(vProtoSame(b, b2), "[C18] a decoded TerminateContractAttachment re-encodes to identical bytes")
	vCover("end")
}

//verif:obligation C18.a.att.storetoipfsattachment tier=quick bigblob=1 covers=end bounds=arbitrary-StoreToIpfsAttachment(every-field-by-type,byte-strings-and-lists<=1(quick)/2(thorough),optional-fields-nil-or-set,non-negative-integers)
func H_C18_StoreToIpfsAttachment() {
	var x StoreToIpfsAttachment
	VFill_StoreToIpfsAttachment(&x, "x")
	vC18Pre_StoreToIpfsAttachment(&x)
	b, err := x.ToBytes()
	vAssert(err == nil, "[C18] StoreToIpfsAttachment encodes")
	y := vC18New_StoreToIpfsAttachment()
	vAssert(y.FromBytes(b) == nil, "[C18] StoreToIpfsAttachment decodes from its own encoding")
	vAssert(VEq_StoreToIpfsAttachment(&x, y), "[C18] StoreToIpfsAttachment decodes from its own encoding to an equal object")
	b2, _ := y.ToBytes()
	vAssert(vProtoSame(b, b2), "[C18] a decoded StoreToIpfsAttachment re-encodes to identical bytes")
	vCover("end")
}
