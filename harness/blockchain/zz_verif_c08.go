package blockchain

import (
	"errors"

	"github.com/idena-network/idena-go/blockchain/types"
	"github.com/idena-network/idena-go/common"
	"github.com/idena-network/idena-go/core/appstate"
	"github.com/idena-network/idena-go/core/validators"
	"github.com/idena-network/idena-go/stats/collector"
)

// Environment of ValidateSubChain: symbolic verdicts for the callees it orchestrates.
type vC08Env struct {
	bundles    []types.BlockBundle
	start      *types.Header
	valid      []bool
	certOK     []bool
	commitOK   []bool
	validated  []bool // validateBlock was called for block i with the right predecessor
	certTried  []bool
	committed  []bool
	checkState *appstate.AppState
}

var vC08 *vC08Env

func (e *vC08Env) index(b *types.Block) int {
	for i := range e.bundles {
		if e.bundles[i].Block == b {
			return i
		}
	}
	return -1
}

func (e *vC08Env) indexHeader(h *types.Header) int {
	for i := range e.bundles {
		if e.bundles[i].Block.Header == h {
			return i
		}
	}
	return -1
}

//verif:override c08 (*idena-go/core/appstate.AppState).ForCheckWithOverwrite vC08ForCheck
func vC08ForCheck(s *appstate.AppState, height uint64) (*appstate.AppState, error) {
	if vBool("forCheckFails") {
		return nil, errors.New("no state for this height")
	}
	return vC08.checkState, nil
}

//verif:override c08 (*idena-go/blockchain.Blockchain).GetBlockHeaderByHeight vC08HeaderByHeight
func vC08HeaderByHeight(chain *Blockchain, height uint64) *types.Header { return vC08.start }

//verif:override c08 (*idena-go/blockchain.Blockchain).validateBlock vC08ValidateBlock
func vC08ValidateBlock(chain *Blockchain, checkState *appstate.AppState, block *types.Block, prevBlock *types.Header, sc collector.StatsCollector) (*blockInsertionResult, error) {
	i := vC08.index(block)
	vAssert(i >= 0 && checkState == vC08.checkState, "validateBlock is called on a fork block with the check state")
	wantPrev := vC08.start
	if i > 0 {
		wantPrev = vC08.bundles[i-1].Block.Header
		vAssert(vC08.committed[i-1], "block i is validated on top of the committed block i-1")
	}
	vC08.validated[i] = prevBlock == wantPrev
	if !vC08.valid[i] {
		return nil, errors.New("invalid block")
	}
	return &blockInsertionResult{}, nil
}

//verif:override c08 (*idena-go/blockchain.Blockchain).ValidateBlockCert vC08ValidateCert
func vC08ValidateCert(chain *Blockchain, prevBlock *types.Header, block *types.Header, cert *types.BlockCert, vc *validators.ValidatorsCache, cache map[string]common.Address) error {
	i := vC08.indexHeader(block)
	vAssert(i >= 0 && cert == vC08.bundles[i].Cert, "certificate i is checked against block i")
	wantPrev := vC08.start
	if i > 0 {
		wantPrev = vC08.bundles[i-1].Block.Header
	}
	vAssert(prevBlock == wantPrev, "certificate i is checked on top of block i-1")
	vAssert(vc == vC08.checkState.ValidatorsCache, "certificates are judged by the committee of the FORK's state (check state), not of the node's current head")
	vC08.certTried[i] = true
	if !vC08.certOK[i] {
		return errors.New("invalid certificate")
	}
	return nil
}

//verif:override c08 (*idena-go/core/appstate.AppState).Commit vC08Commit
func vC08Commit(s *appstate.AppState, block *types.Block) error {
	i := vC08.index(block)
	vAssert(i >= 0 && s == vC08.checkState, "only fork blocks are committed, and only to the check state")
	if !vC08.commitOK[i] {
		return errors.New("commit failed")
	}
	vC08.committed[i] = true
	return nil
}

func vC08Cert(i int) *types.BlockCert {
	switch vChoice("certShape", 3) {
	case 0:
		return nil
	case 1:
		return &types.BlockCert{Round: vU64("certRound")} // present but without signatures
	}
	return &types.BlockCert{Round: vU64("certRound"), Signatures: []*types.BlockCertSignature{{}}}
}

//verif:obligation C08.a tier=quick use=c08 bounds=fork-length-1..3,cert-shape-nil|empty|non-empty,flags-arbitrary-uint32,proposed-or-empty-blocks covers=accepted,rejected
// ValidateSubChain (real orchestration code; validateBlock, ValidateBlockCert, check-state Commit
// are symbolic verdicts): returning nil implies every fork block was validated on top of its
// predecessor and committed, every identity-update block carried a non-empty certificate, every
// non-empty certificate was validated, and the TIP carries a non-empty, validated certificate.
func H_C08a() {
	n := 1 + vChoice("forkLength", 3)
	if vThorough() {
		n = 1 + vChoice("forkLengthT", 4)
	}
	e := &vC08Env{start: &types.Header{EmptyBlockHeader: &types.EmptyBlockHeader{Height: 7}}, checkState: &appstate.AppState{ValidatorsCache: &validators.ValidatorsCache{}}}
	for i := 0; i < n; i++ {
		flags := types.BlockFlag(vU32("flags"))
		var h *types.Header
		if vBool("emptyBlock") {
			h = &types.Header{EmptyBlockHeader: &types.EmptyBlockHeader{Height: uint64(8 + i), Flags: flags}}
		} else {
			h = &types.Header{ProposedHeader: &types.ProposedHeader{Height: uint64(8 + i), Flags: flags}}
		}
		e.bundles = append(e.bundles, types.BlockBundle{Block: &types.Block{Header: h, Body: &types.Body{}}, Cert: vC08Cert(i)})
		e.valid = append(e.valid, vBool("blockValid"))
		e.certOK = append(e.certOK, vBool("certValid"))
		e.commitOK = append(e.commitOK, vBool("commitOK"))
	}
	e.validated, e.certTried, e.committed = make([]bool, n), make([]bool, n), make([]bool, n)
	vC08 = e
	chain := &Blockchain{appState: &appstate.AppState{ValidatorsCache: &validators.ValidatorsCache{}}}

	err := chain.ValidateSubChain(7, e.bundles)

	if err != nil {
		vCover("rejected")
	} else {
		vCover("accepted")
		for i := 0; i < n; i++ {
			c := e.bundles[i].Cert
			nonEmpty := c != nil && len(c.Signatures) > 0
			vAssert(e.valid[i] && e.validated[i], "accepted fork: every block is valid on top of its predecessor")
			vAssert(e.committed[i], "accepted fork: every block was committed to the check state")
			if e.bundles[i].Block.Header.Flags().HasFlag(types.IdentityUpdate) {
				vAssert(nonEmpty, "accepted fork: identity-update block carries a non-empty certificate")
			}
			if nonEmpty {
				vAssert(e.certTried[i] && e.certOK[i], "accepted fork: every non-empty certificate was validated")
			}
			if i == n-1 {
				vAssert(nonEmpty, "accepted fork: the tip carries a non-empty certificate (missing or empty certificates are refused)")
				vAssert(e.certTried[i] && e.certOK[i], "accepted fork: the tip certificate is a validated quorum certificate")
			}
		}
	}
	vCover("end")
}
