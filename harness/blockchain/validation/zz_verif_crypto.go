package validation

import (
	"crypto/ecdsa"
	"errors"

	"github.com/idena-network/idena-go/blockchain/types"
	"github.com/idena-network/idena-go/crypto/vrf"
)

// Signature recovery and VRF verification inside the validators (long-answers proof): arbitrary verdicts.

//verif:override wvrf idena-go/blockchain/types.SenderPubKey vWorldSenderPubKey
func vWorldSenderPubKey(tx *types.Transaction) ([]byte, error) {
	if vBool("crypto.recoverFails") {
		return nil, errors.New("recovery failed")
	}
	return []byte{4, vU8("crypto.senderPubKey")}, nil
}

//verif:override wvrf idena-go/crypto.UnmarshalPubkey vWorldUnmarshalPubkey
func vWorldUnmarshalPubkey(pub []byte) (*ecdsa.PublicKey, error) {
	if vOr(len(pub) == 0, vBool("crypto.pubkeyInvalid")) {
		return nil, errors.New("invalid public key")
	}
	return &ecdsa.PublicKey{}, nil
}

type vWorldVRFKey struct{}

func (vWorldVRFKey) ProofToHash(m, proof []byte) (index [32]byte, err error) {
	if vBool("crypto.vrfProofInvalid") {
		return index, errors.New("invalid VRF proof")
	}
	index[0] = vU8("crypto.vrfHash0")
	return index, nil
}

//verif:override wvrf idena-go/crypto/vrf/p256.NewVRFVerifier vWorldNewVRFVerifier
func vWorldNewVRFVerifier(pubkey *ecdsa.PublicKey) (vrf.PublicKey, error) {
	if vBool("crypto.vrfKeyInvalid") {
		return nil, errors.New("point not on curve")
	}
	return vWorldVRFKey{}, nil
}
