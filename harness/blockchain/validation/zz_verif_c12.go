package validation

import (
	"math/big"
	"unsafe"

	"github.com/idena-network/idena-go/common"

	"github.com/idena-network/idena-go/blockchain/attachments"
	"github.com/idena-network/idena-go/blockchain/fee"
	"github.com/idena-network/idena-go/blockchain/types"
	"github.com/idena-network/idena-go/config"
	"github.com/idena-network/idena-go/core/appstate"
	"github.com/idena-network/idena-go/core/state"
)

// vConfig: the default (v9) consensus constants with the three upgrade switches symbolic
// (monotone: 12 => 11 => 10), as a node on any of the four rule sets would run.
func vConfig() *config.Config {
	c := *config.GetDefaultConsensusConfig()
	c.EnableUpgrade10, c.EnableUpgrade11, c.EnableUpgrade12 = vBool("upgrade10"), vBool("upgrade11"), vBool("upgrade12")
	vAssume((!c.EnableUpgrade12 || c.EnableUpgrade11))
	vAssume((!c.EnableUpgrade11 || c.EnableUpgrade10))
	return &config.Config{Consensus: &c, Validation: &config.ValidationConfig{}, Network: 0x1}
}

// vPayload: every shape a decoded payload can take for the attachment type of this tx type:
// absent, empty, undecodable, or the encoding of an arbitrary attachment value.
func vPayload(w *appstate.VWorld, t types.TxType) []byte {
	if vPrefixReduced {
		return nil
	}
	if VFewPayloadShapes {
		switch t {
		case types.SubmitFlipTx, types.OnlineStatusTx, types.BurnTx, types.ChangeProfileTx, types.DeleteFlipTx, types.SubmitShortAnswersTx,
			types.SubmitLongAnswersTx, types.StoreToIpfsTx, types.SubmitAnswersHashTx, types.ActivationTx, types.CallContractTx, types.DeployContractTx, types.TerminateContractTx:
		default:
			// no attachment is ever read for this type: absent or some bytes
			if vBool("payload.absent") {
				return nil
			}
			return []byte{7}
		}
	}
	switch vChoice("payloadShape", 4) {
	case 0:
		return nil
	case 1:
		return []byte{}
	case 2:
		return []byte{0xff} // never decodes
	}
	var b []byte
	switch t {
	case types.SubmitFlipTx:
		b, _ = (&attachments.FlipSubmitAttachment{Cid: vBytes("att.cid", vChoice("att.cidLen", 3)), Pair: vU8("att.pair")}).ToBytes()
	case types.OnlineStatusTx:
		b, _ = (&attachments.OnlineStatusAttachment{Online: vBool("att.online")}).ToBytes()
	case types.BurnTx:
		key := ""
		if vBool("att.hasKey") {
			key = "k"
		}
		b, _ = (&attachments.BurnAttachment{Key: key}).ToBytes()
	case types.ChangeProfileTx:
		b, _ = (&attachments.ChangeProfileAttachment{Hash: vBytes("att.hash", vChoice("att.hashLen", 3))}).ToBytes()
	case types.DeleteFlipTx:
		b, _ = (&attachments.DeleteFlipAttachment{Cid: vBytes("att.cid", vChoice("att.cidLen", 3))}).ToBytes()
	case types.SubmitShortAnswersTx:
		b, _ = (&attachments.ShortAnswerAttachment{Answers: vBytes("att.answers", vChoice("att.answersLen", 3)), Rnd: vU64("att.rnd"), ClientType: vU8("att.clientType")}).ToBytes()
	case types.SubmitLongAnswersTx:
		b, _ = (&attachments.LongAnswerAttachment{Answers: vBytes("att.answers", vChoice("att.answersLen", 3)), Proof: vBytes("att.proof", vChoice("att.proofLen", 2)), Key: vBytes("att.key", vChoice("att.keyLen", 2)), Salt: vBytes("att.salt", vChoice("att.saltLen", 2))}).ToBytes()
	case types.StoreToIpfsTx:
		b, _ = (&attachments.StoreToIpfsAttachment{Cid: vBytes("att.cid", vChoice("att.cidLen", 3)), Size: []uint32{0, 1000, 1 << 20}[vChoice("att.size", 3)]}).ToBytes()
	case types.SubmitAnswersHashTx:
		b = vBytes("payload32", 32)
	case types.CallContractTx:
		b, _ = (&attachments.CallContractAttachment{Method: "m", Args: [][]byte{vBytes("att.arg", vChoice("att.argLen", 2))}}).ToBytes()
	case types.DeployContractTx:
		var ch common.Hash
		ch[0] = vU8("att.codeHash0")
		b, _ = (&attachments.DeployContractAttachment{CodeHash: ch, Args: [][]byte{vBytes("att.arg", vChoice("att.argLen", 2))}, Code: vBytes("att.code", vChoice("att.codeLen", 2)), Nonce: vBytes("att.nonce", vChoice("att.nonceLen", 2))}).ToBytes()
	case types.TerminateContractTx:
		b, _ = (&attachments.TerminateContractAttachment{Args: [][]byte{vBytes("att.arg", vChoice("att.argLen", 2))}}).ToBytes()
	default:
		// types without an attachment (or a raw payload such as a public key): arbitrary bytes
		b = vBytes("payload", 1+vChoice("payloadLen", 2))
	}
	return b
}

// vSetup: world, transaction, payload, config, fee floor, tx kind.
func vSetup(t types.TxType) (*appstate.VWorld, *types.Transaction, *big.Int, TxType) {
	w := appstate.VBuildWorld(state.VShape{Flips: t == types.DeleteFlipTx || t == types.SubmitFlipTx, Invitees: t == types.KillInviteeTx, InviteesOf: 3, Contracts: t == types.CallContractTx || t == types.DeployContractTx || t == types.TerminateContractTx})
	tx := w.VBuildTx(t)
	tx.Payload = vPayload(w, t)
	// what the payload recovers to when it is read as a public key: an error, or symbolically one of
	// the zero address / S / T / G / F
	w.PubKeyErr = vBool("pubKey.err")
	{
		b := vU8("pubKey.addr")
		vAssume(b <= 4)
		w.PubKeyAddr = state.VAddr(0)
		w.PubKeyAddr[19] = b
		if b == 0 {
			w.PubKeyAddr = common.Address{}
		}
	}
	SetAppConfig(vConfig())
	minFee := (*big.Int)(vNilIf(vBool("minFeePerGas.nil"), unsafe.Pointer(vNonNegBig("minFeePerGas"))))
	k := vU8("txKind") // InBlockTx, InboundTx, MempoolTx
	vAssume(k <= 2)
	return w, tx, minFee, TxType(k)
}

// vPrefixPost: what the type-independent part of ValidateTx (everything before the per-type
// validator is dispatched) establishes. Asserted by C12.a.prefix on the real ValidateTx, assumed by
// the per-type obligations, which call the per-type validator directly (assume-guarantee split:
// the product of both path sets is never explored). Written without short-circuit operators.
func vPrefixPost(w *appstate.VWorld, tx *types.Transaction, kind TxType) bool {
	amount, maxFee, tips := vBigOr0(tx.Amount), vBigOr0(tx.MaxFee), vBigOr0(tx.Tips)
	ok := vAnd(amount.Sign() >= 0, vAnd(maxFee.Sign() >= 0, tips.Sign() >= 0))
	st := w.App.State
	ge := st.Epoch()
	ok = vAnd(ok, tx.Epoch >= ge)
	nonce, epoch := st.GetNonce(w.S), st.GetEpoch(w.S)
	ok = vAnd(ok, !vAnd(nonce >= tx.AccountNonce, vAnd(epoch == ge, tx.Epoch == ge)))
	// the sender can pay amount + tips (a lower bound of every cost formula)
	need := new(big.Int).Add(amount, tips)
	return vAnd(ok, st.GetBalance(w.S).Cmp(need) >= 0)
}

var vNoopReached bool

func vNoopValidator(appState *appstate.AppState, tx *types.Transaction, txType TxType) error {
	vNoopReached = true
	return nil
}

//verif:obligation C12.a.prefix.quick tier=quick use=world bounds=world(S,T,G,F),SendTx,in-block-kind,newest-rule-set,no-payload covers=accepted,rejected
// Reduced instance of the prefix obligation for the every-change tier: a SendTx validated as part of
// a block (the path without any recover) under the newest rule set. The full product (all 23 types x
// 3 kinds x 4 rule sets x payload shapes) is the thorough tier.
func H_C12a_PrefixQuick() {
	vPrefixReduced = true
	vPrefix(types.SendTx)
}

var vPrefixReduced bool
var VFewPayloadShapes bool

func vPrefix(t types.TxType) {
	w, tx, minFee, kind := vSetup(t)
	if vPrefixReduced {
		vAssume(kind == InBlockTx)
		vAssume(appCfg.Consensus.EnableUpgrade12)
		tx.Payload = nil
	}
	for k := range validators {
		validators[k] = vNoopValidator
	}
	vNoopReached = false
	err := ValidateTx(w.App, tx, minFee, kind)
	if err == nil {
		vCover("accepted")
		vAssert(vNoopReached, "accept only through a per-type validator")
		vAssert(vPrefixPost(w, tx, kind), "ValidateTx prefix establishes: non-negative amounts, current-or-later epoch, fresh nonce, funded sender")
		if kind == InBlockTx {
			if _, isContract := contractTxs[t]; !isContract {
				vAssert(VPrefixPostInBlock(w, tx), "in-block ValidateTx prefix establishes: balance covers amount+tips+fee at the state fee rate, fee <= maxFee")
			}
		}
	} else {
		vCover("rejected")
	}
	vCover("end")
}

//verif:obligation C12.a.prefix.send tier=extended use=world bounds=world(S,T,G,F),arbitrary-tx-fields covers=accepted,rejected
// The type-independent part of ValidateTx (per-type validators replaced by a recording no-op) for a SendTx:
// never panics; whenever it hands over to the per-type validator the prefix post-condition holds.
func H_C12a_Prefix_SendTx() { vPrefix(types.SendTx) }

//verif:obligation C12.a.prefix.activation tier=extended use=world bounds=world(S,T,G,F),arbitrary-tx-fields covers=accepted,rejected
// The type-independent part of ValidateTx (per-type validators replaced by a recording no-op) for a ActivationTx:
// never panics; whenever it hands over to the per-type validator the prefix post-condition holds.
func H_C12a_Prefix_ActivationTx() { vPrefix(types.ActivationTx) }

//verif:obligation C12.a.prefix.invite tier=extended use=world bounds=world(S,T,G,F),arbitrary-tx-fields covers=accepted,rejected
// The type-independent part of ValidateTx (per-type validators replaced by a recording no-op) for a InviteTx:
// never panics; whenever it hands over to the per-type validator the prefix post-condition holds.
func H_C12a_Prefix_InviteTx() { vPrefix(types.InviteTx) }

//verif:obligation C12.a.prefix.kill tier=extended use=world bounds=world(S,T,G,F),arbitrary-tx-fields covers=accepted,rejected
// The type-independent part of ValidateTx (per-type validators replaced by a recording no-op) for a KillTx:
// never panics; whenever it hands over to the per-type validator the prefix post-condition holds.
func H_C12a_Prefix_KillTx() { vPrefix(types.KillTx) }

//verif:obligation C12.a.prefix.submitflip tier=extended use=world bounds=world(S,T,G,F),arbitrary-tx-fields covers=accepted,rejected
// The type-independent part of ValidateTx (per-type validators replaced by a recording no-op) for a SubmitFlipTx:
// never panics; whenever it hands over to the per-type validator the prefix post-condition holds.
func H_C12a_Prefix_SubmitFlipTx() { vPrefix(types.SubmitFlipTx) }

//verif:obligation C12.a.prefix.answershash tier=extended use=world bounds=world(S,T,G,F),arbitrary-tx-fields covers=accepted,rejected
// The type-independent part of ValidateTx (per-type validators replaced by a recording no-op) for a SubmitAnswersHashTx:
// never panics; whenever it hands over to the per-type validator the prefix post-condition holds.
func H_C12a_Prefix_SubmitAnswersHashTx() { vPrefix(types.SubmitAnswersHashTx) }

//verif:obligation C12.a.prefix.shortanswers tier=extended use=world bounds=world(S,T,G,F),arbitrary-tx-fields covers=accepted,rejected
// The type-independent part of ValidateTx (per-type validators replaced by a recording no-op) for a SubmitShortAnswersTx:
// never panics; whenever it hands over to the per-type validator the prefix post-condition holds.
func H_C12a_Prefix_SubmitShortAnswersTx() { vPrefix(types.SubmitShortAnswersTx) }

//verif:obligation C12.a.prefix.longanswers tier=extended use=world bounds=world(S,T,G,F),arbitrary-tx-fields covers=accepted,rejected
// The type-independent part of ValidateTx (per-type validators replaced by a recording no-op) for a SubmitLongAnswersTx:
// never panics; whenever it hands over to the per-type validator the prefix post-condition holds.
func H_C12a_Prefix_SubmitLongAnswersTx() { vPrefix(types.SubmitLongAnswersTx) }

//verif:obligation C12.a.prefix.evidence tier=extended use=world bounds=world(S,T,G,F),arbitrary-tx-fields covers=accepted,rejected
// The type-independent part of ValidateTx (per-type validators replaced by a recording no-op) for a EvidenceTx:
// never panics; whenever it hands over to the per-type validator the prefix post-condition holds.
func H_C12a_Prefix_EvidenceTx() { vPrefix(types.EvidenceTx) }

//verif:obligation C12.a.prefix.onlinestatus tier=extended use=world bounds=world(S,T,G,F),arbitrary-tx-fields covers=accepted,rejected
// The type-independent part of ValidateTx (per-type validators replaced by a recording no-op) for a OnlineStatusTx:
// never panics; whenever it hands over to the per-type validator the prefix post-condition holds.
func H_C12a_Prefix_OnlineStatusTx() { vPrefix(types.OnlineStatusTx) }

//verif:obligation C12.a.prefix.killinvitee tier=extended use=world bounds=world(S,T,G,F),arbitrary-tx-fields covers=accepted,rejected
// The type-independent part of ValidateTx (per-type validators replaced by a recording no-op) for a KillInviteeTx:
// never panics; whenever it hands over to the per-type validator the prefix post-condition holds.
func H_C12a_Prefix_KillInviteeTx() { vPrefix(types.KillInviteeTx) }

//verif:obligation C12.a.prefix.changegod tier=extended use=world bounds=world(S,T,G,F),arbitrary-tx-fields covers=accepted,rejected
// The type-independent part of ValidateTx (per-type validators replaced by a recording no-op) for a ChangeGodAddressTx:
// never panics; whenever it hands over to the per-type validator the prefix post-condition holds.
func H_C12a_Prefix_ChangeGodAddressTx() { vPrefix(types.ChangeGodAddressTx) }

//verif:obligation C12.a.prefix.burn tier=extended use=world bounds=world(S,T,G,F),arbitrary-tx-fields covers=accepted,rejected
// The type-independent part of ValidateTx (per-type validators replaced by a recording no-op) for a BurnTx:
// never panics; whenever it hands over to the per-type validator the prefix post-condition holds.
func H_C12a_Prefix_BurnTx() { vPrefix(types.BurnTx) }

//verif:obligation C12.a.prefix.changeprofile tier=extended use=world bounds=world(S,T,G,F),arbitrary-tx-fields covers=accepted,rejected
// The type-independent part of ValidateTx (per-type validators replaced by a recording no-op) for a ChangeProfileTx:
// never panics; whenever it hands over to the per-type validator the prefix post-condition holds.
func H_C12a_Prefix_ChangeProfileTx() { vPrefix(types.ChangeProfileTx) }

//verif:obligation C12.a.prefix.deleteflip tier=extended use=world bounds=world(S,T,G,F),arbitrary-tx-fields covers=accepted,rejected
// The type-independent part of ValidateTx (per-type validators replaced by a recording no-op) for a DeleteFlipTx:
// never panics; whenever it hands over to the per-type validator the prefix post-condition holds.
func H_C12a_Prefix_DeleteFlipTx() { vPrefix(types.DeleteFlipTx) }

//verif:obligation C12.a.prefix.deploy tier=extended use=world bounds=world(S,T,G,F),arbitrary-tx-fields covers=accepted,rejected
// The type-independent part of ValidateTx (per-type validators replaced by a recording no-op) for a DeployContractTx:
// never panics; whenever it hands over to the per-type validator the prefix post-condition holds.
func H_C12a_Prefix_DeployContractTx() { vPrefix(types.DeployContractTx) }

//verif:obligation C12.a.prefix.call tier=extended use=world bounds=world(S,T,G,F),arbitrary-tx-fields covers=accepted,rejected
// The type-independent part of ValidateTx (per-type validators replaced by a recording no-op) for a CallContractTx:
// never panics; whenever it hands over to the per-type validator the prefix post-condition holds.
func H_C12a_Prefix_CallContractTx() { vPrefix(types.CallContractTx) }

//verif:obligation C12.a.prefix.terminate tier=extended use=world bounds=world(S,T,G,F),arbitrary-tx-fields covers=accepted,rejected
// The type-independent part of ValidateTx (per-type validators replaced by a recording no-op) for a TerminateContractTx:
// never panics; whenever it hands over to the per-type validator the prefix post-condition holds.
func H_C12a_Prefix_TerminateContractTx() { vPrefix(types.TerminateContractTx) }

//verif:obligation C12.a.prefix.delegate tier=extended use=world bounds=world(S,T,G,F),arbitrary-tx-fields covers=accepted,rejected
// The type-independent part of ValidateTx (per-type validators replaced by a recording no-op) for a DelegateTx:
// never panics; whenever it hands over to the per-type validator the prefix post-condition holds.
func H_C12a_Prefix_DelegateTx() { vPrefix(types.DelegateTx) }

//verif:obligation C12.a.prefix.undelegate tier=extended use=world bounds=world(S,T,G,F),arbitrary-tx-fields covers=accepted,rejected
// The type-independent part of ValidateTx (per-type validators replaced by a recording no-op) for a UndelegateTx:
// never panics; whenever it hands over to the per-type validator the prefix post-condition holds.
func H_C12a_Prefix_UndelegateTx() { vPrefix(types.UndelegateTx) }

//verif:obligation C12.a.prefix.killdelegator tier=extended use=world bounds=world(S,T,G,F),arbitrary-tx-fields covers=accepted,rejected
// The type-independent part of ValidateTx (per-type validators replaced by a recording no-op) for a KillDelegatorTx:
// never panics; whenever it hands over to the per-type validator the prefix post-condition holds.
func H_C12a_Prefix_KillDelegatorTx() { vPrefix(types.KillDelegatorTx) }

//verif:obligation C12.a.prefix.storetoipfs tier=extended use=world bounds=world(S,T,G,F),arbitrary-tx-fields covers=accepted,rejected
// The type-independent part of ValidateTx (per-type validators replaced by a recording no-op) for a StoreToIpfsTx:
// never panics; whenever it hands over to the per-type validator the prefix post-condition holds.
func H_C12a_Prefix_StoreToIpfsTx() { vPrefix(types.StoreToIpfsTx) }

//verif:obligation C12.a.prefix.replenish tier=extended use=world bounds=world(S,T,G,F),arbitrary-tx-fields covers=accepted,rejected
// The type-independent part of ValidateTx (per-type validators replaced by a recording no-op) for a ReplenishStakeTx:
// never panics; whenever it hands over to the per-type validator the prefix post-condition holds.
func H_C12a_Prefix_ReplenishStakeTx() { vPrefix(types.ReplenishStakeTx) }

func vValidateAny(t types.TxType) {
	w, tx, _, kind := vSetup(t)
	vAssume(vPrefixPost(w, tx, kind))
	v, ok := validators[t]
	vAssert(ok, "a validator is registered for this type")
	err := v(w.App, tx, kind)
	if err == nil {
		vCover("accepted")
	} else {
		vCover("rejected")
	}
	vCover("end")
}

//verif:obligation C12.a.send tier=quick use=world bounds=world(S,T,G,F),arbitrary-tx-fields,payload-absent|empty|garbage|arbitrary covers=accepted,rejected
// The per-type validator of SendTx on an arbitrary decoded transaction (every optional field nil or set)
// satisfying the prefix post-condition, over an arbitrary world: returns a verdict, never panics.
func H_C12a_SendTx() { vValidateAny(types.SendTx) }

//verif:obligation C12.a.activation tier=quick use=world bounds=world(S,T,G,F),arbitrary-tx-fields,payload-absent|empty|garbage|arbitrary covers=accepted,rejected
// The per-type validator of ActivationTx on an arbitrary decoded transaction (every optional field nil or set)
// satisfying the prefix post-condition, over an arbitrary world: returns a verdict, never panics.
func H_C12a_ActivationTx() { vValidateAny(types.ActivationTx) }

//verif:obligation C12.a.invite tier=quick use=world bounds=world(S,T,G,F),arbitrary-tx-fields,payload-absent|empty|garbage|arbitrary covers=accepted,rejected
// The per-type validator of InviteTx on an arbitrary decoded transaction (every optional field nil or set)
// satisfying the prefix post-condition, over an arbitrary world: returns a verdict, never panics.
func H_C12a_InviteTx() { vValidateAny(types.InviteTx) }

//verif:obligation C12.a.kill tier=quick use=world bounds=world(S,T,G,F),arbitrary-tx-fields,payload-absent|empty|garbage|arbitrary covers=accepted,rejected
// The per-type validator of KillTx on an arbitrary decoded transaction (every optional field nil or set)
// satisfying the prefix post-condition, over an arbitrary world: returns a verdict, never panics.
func H_C12a_KillTx() { vValidateAny(types.KillTx) }

//verif:obligation C12.a.submitflip tier=quick tv=off use=world bounds=world(S,T,G,F),arbitrary-tx-fields,payload-absent|empty|garbage|arbitrary covers=accepted,rejected
// The per-type validator of SubmitFlipTx on an arbitrary decoded transaction (every optional field nil or set)
// satisfying the prefix post-condition, over an arbitrary world: returns a verdict, never panics.
func H_C12a_SubmitFlipTx() { vValidateAny(types.SubmitFlipTx) }

//verif:obligation C12.a.answershash tier=quick use=world bounds=world(S,T,G,F),arbitrary-tx-fields,payload-absent|empty|garbage|arbitrary covers=accepted,rejected
// The per-type validator of SubmitAnswersHashTx on an arbitrary decoded transaction (every optional field nil or set)
// satisfying the prefix post-condition, over an arbitrary world: returns a verdict, never panics.
func H_C12a_SubmitAnswersHashTx() { vValidateAny(types.SubmitAnswersHashTx) }

//verif:obligation C12.a.shortanswers tier=quick use=world bounds=world(S,T,G,F),arbitrary-tx-fields,payload-absent|empty|garbage|arbitrary covers=accepted,rejected
// The per-type validator of SubmitShortAnswersTx on an arbitrary decoded transaction (every optional field nil or set)
// satisfying the prefix post-condition, over an arbitrary world: returns a verdict, never panics.
func H_C12a_SubmitShortAnswersTx() { vValidateAny(types.SubmitShortAnswersTx) }

//verif:obligation C12.a.longanswers tier=quick use=world,wvrf bounds=world(S,T,G,F),arbitrary-tx-fields,payload-absent|empty|garbage|arbitrary covers=accepted,rejected
// The per-type validator of SubmitLongAnswersTx on an arbitrary decoded transaction (every optional field nil or set)
// satisfying the prefix post-condition, over an arbitrary world: returns a verdict, never panics.
func H_C12a_SubmitLongAnswersTx() { vValidateAny(types.SubmitLongAnswersTx) }

//verif:obligation C12.a.evidence tier=quick use=world bounds=world(S,T,G,F),arbitrary-tx-fields,payload-absent|empty|garbage|arbitrary covers=accepted,rejected
// The per-type validator of EvidenceTx on an arbitrary decoded transaction (every optional field nil or set)
// satisfying the prefix post-condition, over an arbitrary world: returns a verdict, never panics.
func H_C12a_EvidenceTx() { vValidateAny(types.EvidenceTx) }

//verif:obligation C12.a.onlinestatus tier=quick use=world bounds=world(S,T,G,F),arbitrary-tx-fields,payload-absent|empty|garbage|arbitrary covers=accepted,rejected
// The per-type validator of OnlineStatusTx on an arbitrary decoded transaction (every optional field nil or set)
// satisfying the prefix post-condition, over an arbitrary world: returns a verdict, never panics.
func H_C12a_OnlineStatusTx() { vValidateAny(types.OnlineStatusTx) }

//verif:obligation C12.a.killinvitee tier=quick use=world bounds=world(S,T,G,F),arbitrary-tx-fields,payload-absent|empty|garbage|arbitrary covers=accepted,rejected
// The per-type validator of KillInviteeTx on an arbitrary decoded transaction (every optional field nil or set)
// satisfying the prefix post-condition, over an arbitrary world: returns a verdict, never panics.
func H_C12a_KillInviteeTx() { vValidateAny(types.KillInviteeTx) }

//verif:obligation C12.a.changegod tier=quick use=world bounds=world(S,T,G,F),arbitrary-tx-fields,payload-absent|empty|garbage|arbitrary covers=accepted,rejected
// The per-type validator of ChangeGodAddressTx on an arbitrary decoded transaction (every optional field nil or set)
// satisfying the prefix post-condition, over an arbitrary world: returns a verdict, never panics.
func H_C12a_ChangeGodAddressTx() { vValidateAny(types.ChangeGodAddressTx) }

//verif:obligation C12.a.burn tier=quick use=world bounds=world(S,T,G,F),arbitrary-tx-fields,payload-absent|empty|garbage|arbitrary covers=accepted,rejected
// The per-type validator of BurnTx on an arbitrary decoded transaction (every optional field nil or set)
// satisfying the prefix post-condition, over an arbitrary world: returns a verdict, never panics.
func H_C12a_BurnTx() { vValidateAny(types.BurnTx) }

//verif:obligation C12.a.changeprofile tier=quick use=world bounds=world(S,T,G,F),arbitrary-tx-fields,payload-absent|empty|garbage|arbitrary covers=accepted,rejected
// The per-type validator of ChangeProfileTx on an arbitrary decoded transaction (every optional field nil or set)
// satisfying the prefix post-condition, over an arbitrary world: returns a verdict, never panics.
func H_C12a_ChangeProfileTx() { vValidateAny(types.ChangeProfileTx) }

//verif:obligation C12.a.deleteflip tier=quick use=world bounds=world(S,T,G,F),arbitrary-tx-fields,payload-absent|empty|garbage|arbitrary covers=accepted,rejected
// The per-type validator of DeleteFlipTx on an arbitrary decoded transaction (every optional field nil or set)
// satisfying the prefix post-condition, over an arbitrary world: returns a verdict, never panics.
func H_C12a_DeleteFlipTx() { vValidateAny(types.DeleteFlipTx) }

//verif:obligation C12.a.deploy tier=quick use=world bounds=world(S,T,G,F),arbitrary-tx-fields,payload-absent|empty|garbage|arbitrary covers=accepted,rejected
// The per-type validator of DeployContractTx on an arbitrary decoded transaction (every optional field nil or set)
// satisfying the prefix post-condition, over an arbitrary world: returns a verdict, never panics.
func H_C12a_DeployContractTx() { vValidateAny(types.DeployContractTx) }

//verif:obligation C12.a.call tier=quick use=world bounds=world(S,T,G,F),arbitrary-tx-fields,payload-absent|empty|garbage|arbitrary covers=accepted,rejected
// The per-type validator of CallContractTx on an arbitrary decoded transaction (every optional field nil or set)
// satisfying the prefix post-condition, over an arbitrary world: returns a verdict, never panics.
func H_C12a_CallContractTx() { vValidateAny(types.CallContractTx) }

//verif:obligation C12.a.terminate tier=quick use=world bounds=world(S,T,G,F),arbitrary-tx-fields,payload-absent|empty|garbage|arbitrary covers=accepted,rejected
// The per-type validator of TerminateContractTx on an arbitrary decoded transaction (every optional field nil or set)
// satisfying the prefix post-condition, over an arbitrary world: returns a verdict, never panics.
func H_C12a_TerminateContractTx() { vValidateAny(types.TerminateContractTx) }

//verif:obligation C12.a.delegate tier=quick use=world bounds=world(S,T,G,F),arbitrary-tx-fields,payload-absent|empty|garbage|arbitrary covers=accepted,rejected
// The per-type validator of DelegateTx on an arbitrary decoded transaction (every optional field nil or set)
// satisfying the prefix post-condition, over an arbitrary world: returns a verdict, never panics.
func H_C12a_DelegateTx() { vValidateAny(types.DelegateTx) }

//verif:obligation C12.a.undelegate tier=quick use=world bounds=world(S,T,G,F),arbitrary-tx-fields,payload-absent|empty|garbage|arbitrary covers=accepted,rejected
// The per-type validator of UndelegateTx on an arbitrary decoded transaction (every optional field nil or set)
// satisfying the prefix post-condition, over an arbitrary world: returns a verdict, never panics.
func H_C12a_UndelegateTx() { vValidateAny(types.UndelegateTx) }

//verif:obligation C12.a.killdelegator tier=quick use=world bounds=world(S,T,G,F),arbitrary-tx-fields,payload-absent|empty|garbage|arbitrary covers=accepted,rejected
// The per-type validator of KillDelegatorTx on an arbitrary decoded transaction (every optional field nil or set)
// satisfying the prefix post-condition, over an arbitrary world: returns a verdict, never panics.
func H_C12a_KillDelegatorTx() { vValidateAny(types.KillDelegatorTx) }

//verif:obligation C12.a.storetoipfs tier=quick tv=off use=world bounds=world(S,T,G,F),arbitrary-tx-fields,payload-absent|empty|garbage|arbitrary covers=accepted,rejected
// The per-type validator of StoreToIpfsTx on an arbitrary decoded transaction (every optional field nil or set)
// satisfying the prefix post-condition, over an arbitrary world: returns a verdict, never panics.
func H_C12a_StoreToIpfsTx() { vValidateAny(types.StoreToIpfsTx) }

//verif:obligation C12.a.replenish tier=quick use=world bounds=world(S,T,G,F),arbitrary-tx-fields,payload-absent|empty|garbage|arbitrary covers=accepted,rejected
// The per-type validator of ReplenishStakeTx on an arbitrary decoded transaction (every optional field nil or set)
// satisfying the prefix post-condition, over an arbitrary world: returns a verdict, never panics.
func H_C12a_ReplenishStakeTx() { vValidateAny(types.ReplenishStakeTx) }


func vNonNegBig(name string) *big.Int {
	b := vBig(name)
	vAssume(b.Sign() >= 0)
	return b
}

// ---- exports for the one-step harness in package blockchain ----

func VSetup(t types.TxType) (*appstate.VWorld, *types.Transaction, *big.Int, TxType) {
	return vSetup(t)
}

// VRunValidator calls the registered per-type validator directly.
func VRunValidator(t types.TxType, app *appstate.AppState, tx *types.Transaction, kind TxType) error {
	return validators[t](app, tx, kind)
}

func VPrefixPost(w *appstate.VWorld, tx *types.Transaction, kind TxType) bool {
	return vPrefixPost(w, tx, kind)
}

// VPrefixPostInBlock: what the prefix establishes for a transaction validated as part of a block, in
// addition to VPrefixPost: the sender can pay amount + tips + fee at the state's fee rate and that fee
// does not exceed the declared maximum (non-contract types). Uses the real fee.CalculateFee.
func VPrefixPostInBlock(w *appstate.VWorld, tx *types.Transaction) bool {
	st := w.App.State
	f := fee.CalculateFee(w.App.ValidatorsCache.NetworkSize(), st.FeePerGas(), tx)
	cost := new(big.Int).Add(vBigOr0(tx.Amount), vBigOr0(tx.Tips))
	cost.Add(cost, f)
	return vAnd(st.GetBalance(w.S).Cmp(cost) >= 0, f.Cmp(vBigOr0(tx.MaxFee)) <= 0)
}

func VAppConfig() *config.Config { return appCfg }

// VConfigFor: a fresh symbolic configuration (see vConfig).
func VConfigFor() *config.Config { return vConfig() }
