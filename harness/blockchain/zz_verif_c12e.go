package blockchain

import (
	"bytes"
	"crypto/ecdsa"
	"errors"
	"time"
	"unsafe"

	"github.com/idena-network/idena-go/blockchain/types"
	"github.com/idena-network/idena-go/blockchain/validation"
	"github.com/idena-network/idena-go/common"
	"github.com/idena-network/idena-go/core/appstate"
	"github.com/idena-network/idena-go/core/state"
	"github.com/idena-network/idena-go/core/upgrade"
	"github.com/idena-network/idena-go/crypto/vrf"
)

// ---- crypto and clock: arbitrary verdicts (set "hdr") ----

var vHdrNow int64

//verif:override hdr time.Now vHdrTimeNow
func vHdrTimeNow() time.Time { return time.Unix(vHdrNow, 0) }

//verif:override hdr idena-go/crypto.UnmarshalPubkey vHdrUnmarshalPubkey
func vHdrUnmarshalPubkey(pub []byte) (*ecdsa.PublicKey, error) {
	if vBool("crypto.pubkeyInvalid") {
		return nil, errors.New("invalid public key")
	}
	return &ecdsa.PublicKey{}, nil
}

type vVRFKey struct{}

func (vVRFKey) ProofToHash(m, proof []byte) (index [32]byte, err error) {
	vHdrVrfCalls++
	vHdrVrfMsg, vHdrVrfProof = m, proof
	if vBool("crypto.vrfProofInvalid") {
		vHdrVrfRejected = true
		return index, errors.New("invalid VRF proof")
	}
	index[0] = vU8("crypto.vrfHash0")
	vHdrVrfHash = index
	return index, nil
}

// what the VRF stub was asked and answered (read by C03.b)
var vHdrVrfCalls int
var vHdrVrfMsg, vHdrVrfProof []byte
var vHdrVrfHash [32]byte
var vHdrVrfRejected bool

//verif:override hdr idena-go/crypto/vrf/p256.NewVRFVerifier vHdrNewVRFVerifier
func vHdrNewVRFVerifier(pubkey *ecdsa.PublicKey) (vrf.PublicKey, error) {
	if vBool("crypto.vrfKeyInvalid") {
		return nil, errors.New("point not on curve")
	}
	return vVRFKey{}, nil
}

//verif:override hdr (*idena-go/blockchain/types.Header).Hash vHdrHash
func vHdrHash(h *types.Header) common.Hash {
	var r common.Hash
	if h.EmptyBlockHeader != nil {
		r[0] = byte(h.EmptyBlockHeader.Height) ^ 0x5a
	} else {
		r[0] = byte(h.ProposedHeader.Height) ^ 0xa5
	}
	return r
}

// vTimeDelta: representative offsets around the two timestamp rules (min block delay 10 s, max future
// offset 2 min): the 64-bit nanosecond arithmetic of time.Sub with symbolic operands is out of solver reach.
var vPrevFixedTime, vQuickOffline bool

func vTimeDelta(tag string) int64 {
	if vPrevFixedTime {
		return -60 // quick tier: the previous block is one minute old
	}
	return []int64{-3600, -10, -9, 0, 9, 10, 120, 121}[vChoice(tag+".timeDelta", 8)]
}

// vHeaderPost: what ValidateHeader guarantees to the code that applies the block (assume-guarantee
// split between C12.e.header, which asserts it, and C12.e.globalparams, which assumes it).
func vHeaderPost(h *types.Header) bool {
	offline := vOr(h.Flags().HasFlag(types.OfflineCommit), h.Flags().HasFlag(types.OfflinePropose))
	if h.ProposedHeader == nil {
		return true // empty blocks are regenerated locally and compared by hash before being applied
	}
	return vOr(!offline, h.ProposedHeader.OfflineAddr != nil)
}

// vAnyHeader: an arbitrary header with Header.IsValid() == true (what survives decoding + IsValid):
// empty or proposed, every scalar symbolic, optional fields nil or set.
func vAnyHeader(tag string, now int64) *types.Header {
	if vBool(tag + ".empty") {
		e := &types.EmptyBlockHeader{Height: vU64(tag + ".height"), Time: now + vTimeDelta(tag), Flags: types.BlockFlag(vU32(tag + ".flags"))}
		e.ParentHash[0] = vU8(tag + ".parentHash0")
		e.BlockSeed[0] = vU8(tag + ".seed0")
		return &types.Header{EmptyBlockHeader: e}
	}
	p := &types.ProposedHeader{Height: vU64(tag + ".height"), Time: now + vTimeDelta(tag), Flags: types.BlockFlag(vU32(tag + ".flags")), Upgrade: vU32(tag + ".upgrade")}
	p.ParentHash[0] = vU8(tag + ".parentHash0")
	p.BlockSeed[0] = vU8(tag + ".seed0")
	p.ProposerPubKey = vBytes(tag+".pubKey", vChoice(tag+".pubKeyLen", 3))
	p.SeedProof = vBytes(tag+".seedProof", vChoice(tag+".seedProofLen", 2))
	var off common.Address
	ob := vU8(tag + ".offlineAddr")
	vAssume(ob >= 1)
	vAssume(ob <= 4)
	if vQuickOffline {
		vAssume(ob == 2)
	}
	off[0], off[19] = 0xa0, ob
	p.OfflineAddr = (*common.Address)(vNilIf(vBool(tag+".offlineAddr.nil"), unsafe.Pointer(&off)))
	return &types.Header{ProposedHeader: p}
}

//verif:obligation C03.b tier=quick use=world,hdr bounds=same-as-C12.e.header(arbitrary-valid-header-pairs,timestamps-from-representative-offsets-around-both-window-rules,crypto-verdicts-arbitrary) covers=accepted,rejected
//verif:obligation C12.e.header tier=quick use=world,hdr bounds=arbitrary-valid-headers(empty|proposed,all-scalars,pubkey<=2-bytes,optional-fields),crypto-verdicts-arbitrary covers=accepted,rejected
// ValidateHeader (real code; signature/VRF primitives and the clock are arbitrary verdicts) on an arbitrary
// pair of IsValid headers, for every consensus configuration: returns a verdict, never panics. This is
// the first check on every header received from a peer (sync, proposals, ValidateBlock, ValidateSubChain)
// and none of those callers has a recover.
func H_C12e_Header() {
	w := appstate.VBuildWorld(state.VShape{})
	w.PubKeyErr = vBool("pubKey.err")
	w.PubKeyAddr = state.VAddr(0)
	w.PubKeyAddr[19] = vU8("pubKey.addr")
	vHdrNow = 1700000000
	vPrevFixedTime = !vThorough()
	prev := vAnyHeader("prev", vHdrNow)
	vPrevFixedTime = false
	hdr := vAnyHeader("hdr", vHdrNow)
	cfg := validation.VConfigFor()
	cfg.Consensus.GenerateGenesisAfterUpgrade = vBool("cfg.generateGenesisAfterUpgrade")
	chain := &Blockchain{config: cfg, appState: w.App, upgrader: upgrade.VNewUpgrader(cfg)}
	vHdrVrfCalls, vHdrVrfRejected = 0, false
	if err := chain.ValidateHeader(hdr, prev); err == nil {
		vCover("accepted")
		vAssert(vHeaderPost(hdr), "an accepted header that carries an offline flag names the offline address (relied upon by applyGlobalParams)")
		// C03.b: what acceptance of a header implies (ValidateHeader is the header half of validateBlock)
		vAssert(hdr.Height() == prev.Height()+1, "[C03] an accepted header has the height of its parent plus one")
		vAssert(hdr.ParentHash() == vHdrHash(prev), "[C03] an accepted header links to the hash of the block it is validated against")
		vAssert(hdr.Time()-vHdrNow <= int64(MaxFutureBlockOffset/time.Second), "[C03] an accepted header is not further in the future than the permitted offset")
		vAssert(hdr.Time()-prev.Time() >= int64(MinBlockDelay/time.Second), "[C03] an accepted header keeps the minimal delay to its parent")
		if hdr.ProposedHeader != nil {
			vAssert(hdr.Coinbase() != (common.Address{}), "[C03] an accepted proposed header names a proposer")
			vAssert(vHdrVrfCalls == 1 && !vHdrVrfRejected, "[C03] the seed proof of an accepted proposed header was verified once and passed")
			vAssert(bytes.Equal(vHdrVrfMsg, getSeedData(prev)) && bytes.Equal(vHdrVrfProof, hdr.ProposedHeader.SeedProof), "[C03] the seed proof is verified over the parent's seed and the new height, with the header's own proof")
			vAssert(hdr.Seed() == types.Seed(vHdrVrfHash), "[C03] the seed of an accepted proposed header is the output of its seed proof")
		}
	} else {
		vCover("rejected")
	}
	vCover("end")
}

//verif:obligation C12.e.globalparams tier=quick use=world,hdr tv=off bounds=arbitrary-valid-block(flags-arbitrary,offline-address-nil-or-set,<=1-tx),world(S,T,G,F) covers=offlineCommit,applied
// applyGlobalParams (real code) on an arbitrary block with IsValid() == true whose header satisfies what
// ValidateHeader guarantees (vHeaderPost, asserted by C12.e.header), over an arbitrary world: never panics.
// applyGlobalParams is reached from validateBlock -> applyBlockOnState for every block a peer sends
// (AddBlock, ValidateSubChain, sync) without any recover; the offline-flag consistency check of
// OfflineDetector.ValidateBlock runs on the proposal path only. Empty blocks are regenerated locally and
// compared by hash before they are applied, so their flags are the generated ones (no offline flags).
func H_C12e_GlobalParams() {
	w := appstate.VBuildWorld(state.VShape{})
	w.PubKeyErr = vBool("pubKey.err")
	w.PubKeyAddr = state.VAddr(0)
	w.PubKeyAddr[19] = vU8("pubKey.addr")
	if !vThorough() {
		// every-change tier: proposer is S, the address voted offline (when present) is T
		vAssume(w.PubKeyAddr[19] == 1)
		vQuickOffline = true
	}
	hdr := vAnyHeader("hdr", 1700000000)
	vQuickOffline = false
	vAssume(vHeaderPost(hdr))
	vAssume(vOr(hdr.ProposedHeader != nil, !vOr(hdr.Flags().HasFlag(types.OfflineCommit), hdr.Flags().HasFlag(types.OfflinePropose))))
	block := &types.Block{Header: hdr, Body: &types.Body{}}
	if vBool("body.hasTx") {
		t := vU16("body.txType")
		vAssume(t <= 0x17)
		tx := &types.Transaction{Type: types.TxType(t)}
		types.VSetSender(tx, w.S)
		block.Body.Transactions = []*types.Transaction{tx}
	}
	vAssume(block.IsValid())
	if hdr.Flags().HasFlag(types.OfflineCommit) {
		vCover("offlineCommit")
	}
	cfg := validation.VConfigFor()
	chain := &Blockchain{config: cfg, appState: w.App, upgrader: upgrade.VNewUpgrader(cfg)}
	vCover("applied")
	chain.applyGlobalParams(w.App, block)
	vCover("end")
}
