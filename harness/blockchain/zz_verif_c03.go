package blockchain

import (
	"context"
	"errors"
	"io"
	"math/big"
	"os"
	"unsafe"

	"github.com/idena-network/idena-go/blockchain/types"
	"github.com/idena-network/idena-go/common"
	"github.com/idena-network/idena-go/config"
	"github.com/idena-network/idena-go/core/appstate"
	"github.com/idena-network/idena-go/core/state"
	"github.com/idena-network/idena-go/ipfs"
	"github.com/idena-network/idena-go/stats/collector"
	"github.com/ipfs/go-cid"
	core2 "github.com/libp2p/go-libp2p-core"
	pubsub "github.com/libp2p/go-libp2p-pubsub"
)

// C03: completeness of the comparison set of validateBlock. Every recomputation the validator performs
// is replaced by a stub returning a fresh symbolic "expected" value; the header fields are independent
// symbolic values. Accept must imply field == expected for EVERY derived field: deleting or weakening any
// comparison gives the solver a model at once (bit flip, +-1, nil, foreign value are all "field != expected").
type vC03Env struct {
	headerOK, proposerOK, txsOK bool
	eTx, eRoot, eIdRoot         common.Hash
	eBloom                      []byte
	eFlags                      types.BlockFlag
	eBodyCid, eRcptCid          byte // 0 = the empty cid
	hasReceipts                 bool
	stateFee                    *big.Int
	cidCalls                    int
}

var vC03 *vC03Env

//verif:override c03 (*idena-go/blockchain.Blockchain).ValidateHeader vC03ValidateHeader
func vC03ValidateHeader(chain *Blockchain, header, prev *types.Header) error {
	if !vC03.headerOK {
		return errors.New("invalid header")
	}
	return nil
}

//verif:override c03 idena-go/blockchain.checkIfProposer vC03CheckIfProposer
func vC03CheckIfProposer(addr common.Address, app *appstate.AppState) bool { return vC03.proposerOK }

//verif:override c03 idena-go/blockchain/types.DeriveSha vC03DeriveSha
func vC03DeriveSha(list types.DerivableList) common.Hash { return vC03.eTx }

//verif:override c03 (*idena-go/blockchain.Blockchain).prepareBlockRewardCtx vC03RewardCtx
func vC03RewardCtx(chain *Blockchain, proposer common.Address, app *appstate.AppState, h uint64, prev *types.Header) *blockRewardCtx {
	return nil
}

//verif:override c03 (*idena-go/blockchain.Blockchain).processTxs vC03ProcessTxs
func vC03ProcessTxs(chain *Blockchain, txs []*types.Transaction, ctx *txsExecutionContext) (*big.Int, *big.Int, types.TxReceipts, []task, uint64, error) {
	if !vC03.txsOK {
		return nil, nil, nil, nil, 0, errors.New("invalid transaction in block")
	}
	var r types.TxReceipts
	if vC03.hasReceipts {
		r = types.TxReceipts{&types.TxReceipt{Success: true}}
	}
	return new(big.Int), new(big.Int), r, nil, 0, nil
}

//verif:override c03 idena-go/blockchain.applyHotfixToState vC03Hotfix
func vC03Hotfix(app *appstate.AppState, prev *types.Header) {}

//verif:override c03 idena-go/blockchain.calculateTxBloom vC03Bloom
func vC03Bloom(block *types.Block, receipts types.TxReceipts) []byte { return vC03.eBloom }

//verif:override c03 (*idena-go/blockchain.Blockchain).calculateFlags vC03Flags
func vC03Flags(chain *Blockchain, app *appstate.AppState, block *types.Block, prev *types.Header) types.BlockFlag {
	return vC03.eFlags
}

//verif:override c03 (*idena-go/blockchain.Blockchain).applyBlockOnState vC03ApplyBlock
func vC03ApplyBlock(chain *Blockchain, app *appstate.AppState, block *types.Block, totalFee, totalTips *big.Int, usedGas uint64, ctx *blockRewardCtx, sc collector.StatsCollector) (common.Hash, common.Hash, []*state.StateTreeDiff, *state.IdentityStateDiff) {
	return vC03.eRoot, vC03.eIdRoot, nil, nil
}

//verif:override c03 (*idena-go/core/state.StateDB).FeePerGas vC03StateFee
func vC03StateFee(s *state.StateDB) *big.Int { return vC03.stateFee }

//verif:override c03 idena-go/crypto.PubKeyBytesToAddress vC03PubKeyAddr
func vC03PubKeyAddr(b []byte) (common.Address, error) { return common.Address{1}, nil }

// vCid: a content identifier with the given one-byte content (0 = ipfs.EmptyCid). cid.Cid is a struct
// holding one string; cid.Cid.Bytes() returns its bytes.
func vCid(tag byte) cid.Cid {
	if tag == 0 {
		return ipfs.EmptyCid
	}
	v := struct{ s string }{string([]byte{tag})}
	return *(*cid.Cid)(unsafe.Pointer(&v))
}

type vC03Ipfs struct{}

func (vC03Ipfs) Add(data []byte, pin bool) (cid.Cid, error) { return cid.Cid{}, nil }
func (vC03Ipfs) Get(key []byte, dataType ipfs.DataType) ([]byte, error) { return nil, nil }
func (vC03Ipfs) LoadTo(key []byte, to io.Writer, ctx context.Context, onLoading func(size, loaded int64)) error {
	return nil
}
func (vC03Ipfs) Pin(key []byte) error   { return nil }
func (vC03Ipfs) Unpin(key []byte) error { return nil }
func (vC03Ipfs) Cid(data []byte) (cid.Cid, error) {
	// first call: the body, second call: the receipts
	vC03.cidCalls++
	if vC03.cidCalls == 1 {
		return vCid(vC03.eBodyCid), nil
	}
	return vCid(vC03.eRcptCid), nil
}
func (vC03Ipfs) Port() int      { return 0 }
func (vC03Ipfs) PeerId() string { return "" }
func (vC03Ipfs) AddFile(absPath string, data io.ReadCloser, fi os.FileInfo) (cid.Cid, error) {
	return cid.Cid{}, nil
}
func (vC03Ipfs) Host() core2.Host                          { return nil }
func (vC03Ipfs) ShouldPin(dataType ipfs.DataType) bool      { return false }
func (vC03Ipfs) GetWithSizeLimit(key []byte, dataType ipfs.DataType, size int64) ([]byte, error) {
	return nil, nil
}
func (vC03Ipfs) PubSub() *pubsub.PubSub                            { return nil }
func (vC03Ipfs) GC() (ctx context.Context, cancel context.CancelFunc) { return nil, nil }

func vHash1(name string) common.Hash {
	var h common.Hash
	h[0] = vU8(name)
	return h
}

func vBytesOpt(name string) []byte {
	switch vChoice(name+".shape", 3) {
	case 0:
		return nil
	case 1:
		return []byte{vU8(name + ".b0")}
	}
	return []byte{vU8(name + ".b0"), vU8(name + ".b1")}
}

//verif:obligation C03.a tier=quick use=c03 bounds=proposed-block,every-derived-header-field-independent-symbolic(hashes-in-one-byte,byte-strings<=2-bytes),every-recomputation-a-fresh-symbolic-value covers=accepted,rejected
// validateBlock (real code) on a proposed block: returning nil implies that the header validated, the
// proposer is eligible, every transaction applied, and TxHash, TxBloom, Flags (minus the two
// proposer-chosen offline bits), Root, IdentityRoot, IpfsHash, TxReceiptsCid equal what the validator
// recomputed, and a stated non-zero fee rate equals the state's.
func H_C03a() {
	e := &vC03Env{headerOK: vBool("headerOK"), proposerOK: vBool("proposerOK"), txsOK: vBool("txsOK"),
		eTx: vHash1("exp.txHash"), eRoot: vHash1("exp.root"), eIdRoot: vHash1("exp.identityRoot"), eBloom: vBytesOpt("exp.bloom"),
		eFlags: types.BlockFlag(vU32("exp.flags")), eBodyCid: vU8("exp.bodyCid"), eRcptCid: vU8("exp.receiptsCid"), hasReceipts: vBool("hasReceipts")}
	e.stateFee = vBig("state.feePerGas")
	vAssume(e.stateFee.Sign() >= 0)
	vC03 = e
	h := &types.ProposedHeader{Height: 8, TxHash: vHash1("hdr.txHash"), Root: vHash1("hdr.root"), IdentityRoot: vHash1("hdr.identityRoot"),
		TxBloom: vBytesOpt("hdr.bloom"), Flags: types.BlockFlag(vU32("hdr.flags")), IpfsHash: vBytesOpt("hdr.ipfsHash"), TxReceiptsCid: vBytesOpt("hdr.receiptsCid"),
		ProposerPubKey: []byte{1}}
	h.FeePerGas = (*big.Int)(vNilIf(vBool("hdr.feePerGas.nil"), unsafe.Pointer(vBig("hdr.feePerGas"))))
	block := &types.Block{Header: &types.Header{ProposedHeader: h}, Body: &types.Body{}}
	prev := &types.Header{EmptyBlockHeader: &types.EmptyBlockHeader{Height: 7}}
	cons := *config.GetDefaultConsensusConfig()
	chain := &Blockchain{config: &config.Config{Consensus: &cons}, ipfs: vC03Ipfs{}}
	check := &appstate.AppState{State: &state.StateDB{}}

	res, err := chain.validateBlock(check, block, prev, nil)

	if err != nil {
		vCover("rejected")
		vAssert(res == nil, "a rejected block yields no insertion result")
	} else {
		vCover("accepted")
		vAssert(e.headerOK && e.proposerOK && e.txsOK, "accepted => header valid, proposer eligible, every transaction applied")
		vAssert(h.TxHash == e.eTx, "accepted => transaction commitment equals the recomputed one")
		vAssert(string(h.TxBloom) == string(e.eBloom), "accepted => bloom filter equals the recomputed one")
		vAssert(h.Flags.UnsetFlag(types.OfflinePropose).UnsetFlag(types.OfflineCommit) == e.eFlags, "accepted => flags (minus the proposer-chosen offline bits) equal the recomputed ones")
		vAssert(h.Root == e.eRoot && h.IdentityRoot == e.eIdRoot, "accepted => state root and identity root equal the recomputed ones")
		wantCid := []byte(nil)
		if e.eBodyCid != 0 {
			wantCid = []byte{e.eBodyCid}
		}
		vAssert(string(h.IpfsHash) == string(wantCid), "accepted => body content identifier equals the recomputed one")
		wantR := []byte(nil)
		if e.hasReceipts && e.eRcptCid != 0 {
			wantR = []byte{e.eRcptCid}
		}
		vAssert(string(h.TxReceiptsCid) == string(wantR), "accepted => receipts content identifier equals the recomputed one")
		vAssert(h.FeePerGas == nil || h.FeePerGas.Sign() == 0 || h.FeePerGas.Cmp(e.stateFee) == 0, "accepted => a stated non-zero fee rate equals the state's")
	}
	vCover("end")
}
