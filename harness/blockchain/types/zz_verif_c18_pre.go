package types

// documented preconditions of the encodings (what every producer in the code base guarantees)
func vC18Pre_Transaction(x *Transaction) {}
func vC18Pre_Flip(x *Flip) {}
func vC18Pre_ActivityMonitor(x *ActivityMonitor) {}
func vC18Pre_SavedTransaction(x *SavedTransaction) {}
func vC18Pre_BurntCoins(x *BurntCoins) {}
func vC18Pre_Header(x *Header) {}
func vC18Pre_Vote(x *Vote) {}
func vC18Pre_BlockCert(x *BlockCert) {}
func vC18Pre_ProofProposal(x *ProofProposal) {}
func vC18Pre_PublicFlipKey(x *PublicFlipKey) {}
func vC18Pre_PrivateFlipKeysPackage(x *PrivateFlipKeysPackage) {}
func vC18Pre_TransactionIndex(x *TransactionIndex) {}
func vC18Pre_TxReceipt(x *TxReceipt) {}
func vC18Pre_TxReceiptIndex(x *TxReceiptIndex) {}
func vC18Pre_SavedEvent(x *SavedEvent) {}
func vC18Pre_UpgradeVotes(x *UpgradeVotes) {}

// the empty object a decoder starts from (the constructor where the code base has one)
func vC18New_Transaction() *Transaction { return new(Transaction) }
func vC18New_Flip() *Flip { return new(Flip) }
func vC18New_ActivityMonitor() *ActivityMonitor { return new(ActivityMonitor) }
func vC18New_SavedTransaction() *SavedTransaction { return new(SavedTransaction) }
func vC18New_BurntCoins() *BurntCoins { return new(BurntCoins) }
func vC18New_Header() *Header { return new(Header) }
func vC18New_Vote() *Vote { return new(Vote) }
func vC18New_BlockCert() *BlockCert { return new(BlockCert) }
func vC18New_ProofProposal() *ProofProposal { return new(ProofProposal) }
func vC18New_PublicFlipKey() *PublicFlipKey { return new(PublicFlipKey) }
func vC18New_PrivateFlipKeysPackage() *PrivateFlipKeysPackage { return new(PrivateFlipKeysPackage) }
func vC18New_TransactionIndex() *TransactionIndex { return new(TransactionIndex) }
func vC18New_TxReceipt() *TxReceipt { return new(TxReceipt) }
func vC18New_TxReceiptIndex() *TxReceiptIndex { return new(TxReceiptIndex) }
func vC18New_SavedEvent() *SavedEvent { return new(SavedEvent) }
func vC18New_UpgradeVotes() *UpgradeVotes { return NewUpgradeVotes() }
