package types

import (
	"github.com/golang/protobuf/proto"
	models "github.com/idena-network/idena-go/protobuf"
)

// C18.c: a signature binds every signed field. The bytes that are hashed and signed (ToSignatureBytes) must
// DETERMINE every field of the object other than the signature itself: shown by recovering the object from
// exactly those bytes with the type's own decoder (a left inverse exists, so two objects that differ in a signed
// field never have the same signed bytes - a dropped, swapped or truncated field in ToSignatureBytes breaks it).

//verif:obligation C18.c.transaction tier=quick bigblob=1 covers=end bounds=arbitrary-Transaction(as-C18.a.transaction)
func H_C18c_Transaction() {
	var x Transaction
	VFill_Transaction(&x, "x")
	sb, err := x.ToSignatureBytes()
	vAssert(err == nil, "[C18] the signed bytes of a transaction exist")
	d := new(models.ProtoTransaction_Data)
	vAssert(proto.Unmarshal(sb, d) == nil, "[C18] the signed bytes of a transaction are its data message")
	y := new(Transaction).FromProto(&models.ProtoTransaction{Data: d, Signature: x.Signature, UseRlp: x.UseRlp})
	vAssert(VEq_Transaction(&x, y), "[C18] every signed field of a transaction (nonce, epoch, type, to, amount, max fee, tips, payload) is determined by the bytes that are signed")
	vCover("end")
}

//verif:obligation C18.c.vote tier=quick bigblob=1 covers=end bounds=arbitrary-Vote-with-header
func H_C18c_Vote() {
	var x Vote
	VFill_Vote(&x, "x")
	vAssume(x.Header != nil)
	sb, err := x.ToSignatureBytes()
	vAssert(err == nil, "[C18] the signed bytes of a vote exist")
	d := new(models.ProtoVote_Data)
	vAssert(proto.Unmarshal(sb, d) == nil, "[C18] the signed bytes of a vote are its data message")
	b, _ := proto.Marshal(&models.ProtoVote{Data: d, Signature: x.Signature})
	y := new(Vote)
	vAssert(y.FromBytes(b) == nil && VEq_Vote(&x, y), "[C18] every signed field of a vote (round, step, parent, voted hash, turn-offline, upgrade) is determined by the bytes that are signed")
	vCover("end")
}

//verif:obligation C18.c.proofproposal tier=quick bigblob=1 covers=end bounds=arbitrary-ProofProposal
func H_C18c_ProofProposal() {
	var x ProofProposal
	VFill_ProofProposal(&x, "x")
	sb, _ := x.ToSignatureBytes()
	d := new(models.ProtoProposeProof_Data)
	vAssert(proto.Unmarshal(sb, d) == nil, "[C18] the signed bytes of a proof proposal are its data message")
	b, _ := proto.Marshal(&models.ProtoProposeProof{Data: d, Signature: x.Signature})
	y := new(ProofProposal)
	vAssert(y.FromBytes(b) == nil && VEq_ProofProposal(&x, y), "[C18] every signed field of a proof proposal (proof, round) is determined by the bytes that are signed")
	vCover("end")
}

//verif:obligation C18.c.publicflipkey tier=quick bigblob=1 covers=end bounds=arbitrary-PublicFlipKey
func H_C18c_PublicFlipKey() {
	var x PublicFlipKey
	VFill_PublicFlipKey(&x, "x")
	sb, _ := x.ToSignatureBytes()
	d := new(models.ProtoFlipKey_Data)
	vAssert(proto.Unmarshal(sb, d) == nil, "[C18] the signed bytes of a public flip key are its data message")
	b, _ := proto.Marshal(&models.ProtoFlipKey{Data: d, Signature: x.Signature})
	y := new(PublicFlipKey)
	vAssert(y.FromBytes(b) == nil && VEq_PublicFlipKey(&x, y), "[C18] every signed field of a public flip key (key, epoch) is determined by the bytes that are signed")
	vCover("end")
}

//verif:obligation C18.c.privateflipkeyspackage tier=quick bigblob=1 covers=end bounds=arbitrary-PrivateFlipKeysPackage
func H_C18c_PrivateFlipKeysPackage() {
	var x PrivateFlipKeysPackage
	VFill_PrivateFlipKeysPackage(&x, "x")
	sb, _ := x.ToSignatureBytes()
	d := new(models.ProtoPrivateFlipKeysPackage_Data)
	vAssert(proto.Unmarshal(sb, d) == nil, "[C18] the signed bytes of a key package are its data message")
	b, _ := proto.Marshal(&models.ProtoPrivateFlipKeysPackage{Data: d, Signature: x.Signature})
	y := new(PrivateFlipKeysPackage)
	vAssert(y.FromBytes(b) == nil && VEq_PrivateFlipKeysPackage(&x, y), "[C18] every signed field of a key package (package, epoch) is determined by the bytes that are signed")
	vCover("end")
}

//verif:obligation C18.c.blockproposal tier=quick bigblob=1 covers=end bounds=arbitrary-BlockProposal-around-a-small-block(as-C18.a.blockproposal)
func H_C18c_BlockProposal() {
	var x BlockProposal
	VFill_BlockProposal(&x, "x")
	x.Block = &Block{Header: vC18SmallHeader(), Body: &Body{}}
	if vBool("x.Block.hasTx") {
		x.Block.Body.Transactions = []*Transaction{{AccountNonce: vU32("x.Block.tx.nonce")}}
	}
	sb, _ := x.ToSignatureBytes()
	d := new(models.ProtoBlockProposal_Data)
	vAssert(proto.Unmarshal(sb, d) == nil, "[C18] the signed bytes of a block proposal are its data message")
	b, _ := proto.Marshal(&models.ProtoBlockProposal{Data: d, Signature: x.Signature})
	y := new(BlockProposal)
	vAssert(y.FromBytes(b) == nil && VEq_BlockProposal(&x, y) && y.Block != nil && VEq_Block(x.Block, y.Block) && y.Block.Header != nil && VEq_Header(x.Block.Header, y.Block.Header),
		"[C18] every signed field of a block proposal (header, body, proof) is determined by the bytes that are signed")
	vCover("end")
}
