package types

import (
	"errors"
	"unsafe"
)

// C12.c: what a peer sends is decoded into an object with ANY combination of absent optional parts; the
// object's IsValid() is the only shield between the decoder and the handler code that dereferences it
// (protocol/gossip.go). For an arbitrary decoded object IsValid returns a verdict without panicking, and a
// positive verdict makes every dereference of the first consumer safe.

//verif:override c12c idena-go/blockchain/types.BlockProposalPubKey vC12cProposalPubKey
func vC12cProposalPubKey(p *BlockProposal) ([]byte, error) {
	if vBool("crypto.recoverFails") {
		return nil, errors.New("invalid signature")
	}
	return []byte{4, vU8("crypto.recoveredKey")}, nil
}

func vC12cBlock(tag string) *Block {
	var b Block
	var h Header
	vGenLean = true // the shape (which optional part is present) is the subject, not byte-string contents
	VFill_Block(&b, tag)
	VFill_Header(&h, tag+".Header")
	vGenLean = false
	if h.ProposedHeader != nil {
		h.ProposedHeader.ProposerPubKey = []byte{4, vU8(tag + ".proposerKey")}
	}
	b.Header = (*Header)(vNilIf(vBool(tag+".Header.nil"), unsafe.Pointer(&h)))
	return &b
}

//verif:obligation C12.c.blockproposal tier=quick use=c12c covers=valid,invalid,end bounds=arbitrary-decoded-BlockProposal(block/header/either-header-kind/body-each-absent-or-present,signature-0-1-bytes),signature-recovery-arbitrary
func H_C12c_BlockProposal() {
	var x BlockProposal
	VFill_BlockProposal(&x, "x")
	b := vC12cBlock("x.Block")
	x.Block = (*Block)(vNilIf(vBool("x.Block.nil"), unsafe.Pointer(b)))
	if x.IsValid() {
		vCover("valid")
		// protocol/gossip.go ProposeBlock: p.setHeight(proposal.Block.Height() - 1), then pengings.AddProposedBlock
		_ = x.Block.Height() - 1
		_ = x.Block.Header.ProposedHeader.ProposerPubKey
		_ = x.Block.Header.ParentHash()
		_ = x.Block.Body.Transactions
	} else {
		vCover("invalid")
	}
	vCover("end")
}

//verif:obligation C12.c.vote tier=quick covers=valid,invalid,end bounds=arbitrary-decoded-Vote(header-absent-or-present)
func H_C12c_Vote() {
	var x Vote
	VFill_Vote(&x, "x")
	if x.IsValid() {
		vCover("valid")
		// protocol/gossip.go Vote: p.setPotentialHeight(vote.Header.Round - 1), then pengings.AddVote
		_ = x.Header.Round - 1
		_ = x.Header.VotedHash
		_, _ = x.ToSignatureBytes()
	} else {
		vCover("invalid")
	}
	vCover("end")
}

//verif:obligation C12.c.flip tier=quick covers=valid,invalid,end bounds=arbitrary-decoded-Flip(transaction-absent-or-present)
func H_C12c_Flip() {
	var x Flip
	vGenLean = true
	VFill_Flip(&x, "x")
	vGenLean = false
	if x.IsValid() {
		vCover("valid")
		_ = x.Tx.Type
		_ = x.Tx.AmountOrZero()
	} else {
		vCover("invalid")
	}
	vCover("end")
}

//verif:obligation C12.c.block tier=quick covers=valid,invalid,end bounds=arbitrary-decoded-Block(header/either-header-kind/body-each-absent-or-present)
func H_C12c_Block() {
	b := vC12cBlock("x")
	if b.IsValid() {
		vCover("valid")
		// every accessor the sync and validation code calls on a block that passed IsValid
		_ = b.Height()
		_ = b.IsEmpty()
		_ = b.Root()
		_ = b.IdentityRoot()
		_ = b.Seed()
		_ = b.Header.ParentHash()
		_ = b.Header.Flags()
		_ = b.Header.Time()
		_ = b.Header.Coinbase
		_ = len(b.Body.Transactions)
	} else {
		vCover("invalid")
	}
	vCover("end")
}
