package types


// C18.a / C18.b: x = an arbitrary value of the type (every field by type, from the current struct definition,
// see //verif:gen), through the type's own encoder and decoder (hand-written ToProto / FromProto; protobuf itself
// is the ideal channel, big-endian integer bytes the ideal encoding), compared field by field; then re-encoded.

//verif:gen -BlockProposal.Block -Block.Header Transaction Flip ActivityMonitor SavedTransaction BurntCoins Block Header Vote BlockCert ProofProposal BlockProposal PublicFlipKey PrivateFlipKeysPackage TransactionIndex TxReceipt TxReceiptIndex SavedEvent UpgradeVotes

//verif:obligation C18.a.transaction tier=quick bigblob=1 covers=end bounds=arbitrary-Transaction(every-field-by-type,byte-strings-and-lists<=1(quick)/2(thorough),optional-fields-nil-or-set,non-negative-integers)
func H_C18_Transaction() {
	var x Transaction
	VFill_Transaction(&x, "x")
	vC18Pre_Transaction(&x)
	b, err := x.ToBytes()
	vAssert(err == nil, "[C18] Transaction encodes")
	y := vC18New_Transaction()
	vAssert(y.FromBytes(b) == nil, "[C18] Transaction decodes from its own encoding")
	vAssert(VEq_Transaction(&x, y), "[C18] Transaction decodes from its own encoding to an equal object")
	b2, _ := y.ToBytes()
	vAssert(vProtoSame(b, b2), "[C18] a decoded Transaction re-encodes to identical bytes")
	vCover("end")
}

//verif:obligation C18.a.flip tier=quick bigblob=1 covers=end bounds=arbitrary-Flip(every-field-by-type,byte-strings-and-lists<=1(quick)/2(thorough),optional-fields-nil-or-set,non-negative-integers)
func H_C18_Flip() {
	var x Flip
	VFill_Flip(&x, "x")
	vC18Pre_Flip(&x)
	b, err := x.ToBytes()
	vAssert(err == nil, "[C18] Flip encodes")
	y := vC18New_Flip()
	vAssert(y.FromBytes(b) == nil, "[C18] Flip decodes from its own encoding")
	vAssert(VEq_Flip(&x, y), "[C18] Flip decodes from its own encoding to an equal object")
	b2, _ := y.ToBytes()
	vAssert(vProtoSame(b, b2), "[C18] a decoded Flip re-encodes to identical bytes")
	vCover("end")
}

//verif:obligation C18.a.activitymonitor tier=quick bigblob=1 covers=end bounds=arbitrary-ActivityMonitor(every-field-by-type,byte-strings-and-lists<=1(quick)/2(thorough),optional-fields-nil-or-set,non-negative-integers)
func H_C18_ActivityMonitor() {
	var x ActivityMonitor
	VFill_ActivityMonitor(&x, "x")
	vC18Pre_ActivityMonitor(&x)
	b, err := x.ToBytes()
	vAssert(err == nil, "[C18] ActivityMonitor encodes")
	y := vC18New_ActivityMonitor()
	vAssert(y.FromBytes(b) == nil, "[C18] ActivityMonitor decodes from its own encoding")
	vAssert(VEq_ActivityMonitor(&x, y), "[C18] ActivityMonitor decodes from its own encoding to an equal object")
	b2, _ := y.ToBytes()
	vAssert(vProtoSame(b, b2), "[C18] a decoded ActivityMonitor re-encodes to identical bytes")
	vCover("end")
}

//verif:obligation C18.a.savedtransaction tier=quick bigblob=1 covers=end bounds=arbitrary-SavedTransaction(every-field-by-type,byte-strings-and-lists<=1(quick)/2(thorough),optional-fields-nil-or-set,non-negative-integers)
func H_C18_SavedTransaction() {
	var x SavedTransaction
	VFill_SavedTransaction(&x, "x")
	vC18Pre_SavedTransaction(&x)
	b, err := x.ToBytes()
	vAssert(err == nil, "[C18] SavedTransaction encodes")
	y := vC18New_SavedTransaction()
	vAssert(y.FromBytes(b) == nil, "[C18] SavedTransaction decodes from its own encoding")
	vAssert(VEq_SavedTransaction(&x, y), "[C18] SavedTransaction decodes from its own encoding to an equal object")
	b2, _ := y.ToBytes()
	vAssert(vProtoSame(b, b2), "[C18] a decoded SavedTransaction re-encodes to identical bytes")
	vCover("end")
}

//verif:obligation C18.a.burntcoins tier=quick bigblob=1 covers=end bounds=arbitrary-BurntCoins(every-field-by-type,byte-strings-and-lists<=1(quick)/2(thorough),optional-fields-nil-or-set,non-negative-integers)
func H_C18_BurntCoins() {
	var x BurntCoins
	VFill_BurntCoins(&x, "x")
	vC18Pre_BurntCoins(&x)
	b, err := x.ToBytes()
	vAssert(err == nil, "[C18] BurntCoins encodes")
	y := vC18New_BurntCoins()
	vAssert(y.FromBytes(b) == nil, "[C18] BurntCoins decodes from its own encoding")
	vAssert(VEq_BurntCoins(&x, y), "[C18] BurntCoins decodes from its own encoding to an equal object")
	b2, _ := y.ToBytes()
	vAssert(vProtoSame(b, b2), "[C18] a decoded BurntCoins re-encodes to identical bytes")
	vCover("end")
}

//verif:obligation C18.a.header tier=quick bigblob=1 covers=end bounds=arbitrary-Header(every-field-by-type,byte-strings-and-lists<=1(quick)/2(thorough),optional-fields-nil-or-set,non-negative-integers)
func H_C18_Header() {
	var x Header
	VFill_Header(&x, "x")
	vC18Pre_Header(&x)
	b, err := x.ToBytes()
	vAssert(err == nil, "[C18] Header encodes")
	y := vC18New_Header()
	vAssert(y.FromBytes(b) == nil, "[C18] Header decodes from its own encoding")
	vAssert(VEq_Header(&x, y), "[C18] Header decodes from its own encoding to an equal object")
	b2, _ := y.ToBytes()
	vAssert(vProtoSame(b, b2), "[C18] a decoded Header re-encodes to identical bytes")
	vCover("end")
}

//verif:obligation C18.a.vote tier=quick bigblob=1 covers=end bounds=arbitrary-Vote(every-field-by-type,byte-strings-and-lists<=1(quick)/2(thorough),optional-fields-nil-or-set,non-negative-integers)
func H_C18_Vote() {
	var x Vote
	VFill_Vote(&x, "x")
	vC18Pre_Vote(&x)
	b, err := x.ToBytes()
	vAssert(err == nil, "[C18] Vote encodes")
	y := vC18New_Vote()
	vAssert(y.FromBytes(b) == nil, "[C18] Vote decodes from its own encoding")
	vAssert(VEq_Vote(&x, y), "[C18] Vote decodes from its own encoding to an equal object")
	b2, _ := y.ToBytes()
	vAssert(vProtoSame(b, b2), "[C18] a decoded Vote re-encodes to identical bytes")
	vCover("end")
}

//verif:obligation C18.a.blockcert tier=quick bigblob=1 covers=end bounds=arbitrary-BlockCert(every-field-by-type,byte-strings-and-lists<=1(quick)/2(thorough),optional-fields-nil-or-set,non-negative-integers)
func H_C18_BlockCert() {
	var x BlockCert
	VFill_BlockCert(&x, "x")
	vC18Pre_BlockCert(&x)
	b, err := x.ToBytes()
	vAssert(err == nil, "[C18] BlockCert encodes")
	y := vC18New_BlockCert()
	vAssert(y.FromBytes(b) == nil, "[C18] BlockCert decodes from its own encoding")
	vAssert(VEq_BlockCert(&x, y), "[C18] BlockCert decodes from its own encoding to an equal object")
	b2, _ := y.ToBytes()
	vAssert(vProtoSame(b, b2), "[C18] a decoded BlockCert re-encodes to identical bytes")
	vCover("end")
}

//verif:obligation C18.a.proofproposal tier=quick bigblob=1 covers=end bounds=arbitrary-ProofProposal(every-field-by-type,byte-strings-and-lists<=1(quick)/2(thorough),optional-fields-nil-or-set,non-negative-integers)
func H_C18_ProofProposal() {
	var x ProofProposal
	VFill_ProofProposal(&x, "x")
	vC18Pre_ProofProposal(&x)
	b, err := x.ToBytes()
	vAssert(err == nil, "[C18] ProofProposal encodes")
	y := vC18New_ProofProposal()
	vAssert(y.FromBytes(b) == nil, "[C18] ProofProposal decodes from its own encoding")
	vAssert(VEq_ProofProposal(&x, y), "[C18] ProofProposal decodes from its own encoding to an equal object")
	b2, _ := y.ToBytes()
	vAssert(vProtoSame(b, b2), "[C18] a decoded ProofProposal re-encodes to identical bytes")
	vCover("end")
}

//verif:obligation C18.a.publicflipkey tier=quick bigblob=1 covers=end bounds=arbitrary-PublicFlipKey(every-field-by-type,byte-strings-and-lists<=1(quick)/2(thorough),optional-fields-nil-or-set,non-negative-integers)
func H_C18_PublicFlipKey() {
	var x PublicFlipKey
	VFill_PublicFlipKey(&x, "x")
	vC18Pre_PublicFlipKey(&x)
	b, err := x.ToBytes()
	vAssert(err == nil, "[C18] PublicFlipKey encodes")
	y := vC18New_PublicFlipKey()
	vAssert(y.FromBytes(b) == nil, "[C18] PublicFlipKey decodes from its own encoding")
	vAssert(VEq_PublicFlipKey(&x, y), "[C18] PublicFlipKey decodes from its own encoding to an equal object")
	b2, _ := y.ToBytes()
	vAssert(vProtoSame(b, b2), "[C18] a decoded PublicFlipKey re-encodes to identical bytes")
	vCover("end")
}

//verif:obligation C18.a.privateflipkeyspackage tier=quick bigblob=1 covers=end bounds=arbitrary-PrivateFlipKeysPackage(every-field-by-type,byte-strings-and-lists<=1(quick)/2(thorough),optional-fields-nil-or-set,non-negative-integers)
func H_C18_PrivateFlipKeysPackage() {
	var x PrivateFlipKeysPackage
	VFill_PrivateFlipKeysPackage(&x, "x")
	vC18Pre_PrivateFlipKeysPackage(&x)
	b, err := x.ToBytes()
	vAssert(err == nil, "[C18] PrivateFlipKeysPackage encodes")
	y := vC18New_PrivateFlipKeysPackage()
	vAssert(y.FromBytes(b) == nil, "[C18] PrivateFlipKeysPackage decodes from its own encoding")
	vAssert(VEq_PrivateFlipKeysPackage(&x, y), "[C18] PrivateFlipKeysPackage decodes from its own encoding to an equal object")
	b2, _ := y.ToBytes()
	vAssert(vProtoSame(b, b2), "[C18] a decoded PrivateFlipKeysPackage re-encodes to identical bytes")
	vCover("end")
}

//verif:obligation C18.a.transactionindex tier=quick bigblob=1 covers=end bounds=arbitrary-TransactionIndex(every-field-by-type,byte-strings-and-lists<=1(quick)/2(thorough),optional-fields-nil-or-set,non-negative-integers)
func H_C18_TransactionIndex() {
	var x TransactionIndex
	VFill_TransactionIndex(&x, "x")
	vC18Pre_TransactionIndex(&x)
	b, err := x.ToBytes()
	vAssert(err == nil, "[C18] TransactionIndex encodes")
	y := vC18New_TransactionIndex()
	vAssert(y.FromBytes(b) == nil, "[C18] TransactionIndex decodes from its own encoding")
	vAssert(VEq_TransactionIndex(&x, y), "[C18] TransactionIndex decodes from its own encoding to an equal object")
	b2, _ := y.ToBytes()
	vAssert(vProtoSame(b, b2), "[C18] a decoded TransactionIndex re-encodes to identical bytes")
	vCover("end")
}

//verif:obligation C18.a.txreceipt tier=quick bigblob=1 covers=end bounds=arbitrary-TxReceipt(every-field-by-type,byte-strings-and-lists<=1(quick)/2(thorough),optional-fields-nil-or-set,non-negative-integers)
func H_C18_TxReceipt() {
	var x TxReceipt
	VFill_TxReceipt(&x, "x")
	vC18Pre_TxReceipt(&x)
	b, err := x.ToBytes()
	vAssert(err == nil, "[C18] TxReceipt encodes")
	y := vC18New_TxReceipt()
	vAssert(y.FromBytes(b) == nil, "[C18] TxReceipt decodes from its own encoding")
	vAssert(VEq_TxReceipt(&x, y), "[C18] TxReceipt decodes from its own encoding to an equal object")
	b2, _ := y.ToBytes()
	vAssert(vProtoSame(b, b2), "[C18] a decoded TxReceipt re-encodes to identical bytes")
	vCover("end")
}

//verif:obligation C18.a.txreceiptindex tier=quick bigblob=1 covers=end bounds=arbitrary-TxReceiptIndex(every-field-by-type,byte-strings-and-lists<=1(quick)/2(thorough),optional-fields-nil-or-set,non-negative-integers)
func H_C18_TxReceiptIndex() {
	var x TxReceiptIndex
	VFill_TxReceiptIndex(&x, "x")
	vC18Pre_TxReceiptIndex(&x)
	b, err := x.ToBytes()
	vAssert(err == nil, "[C18] TxReceiptIndex encodes")
	y := vC18New_TxReceiptIndex()
	vAssert(y.FromBytes(b) == nil, "[C18] TxReceiptIndex decodes from its own encoding")
	vAssert(VEq_TxReceiptIndex(&x, y), "[C18] TxReceiptIndex decodes from its own encoding to an equal object")
	b2, _ := y.ToBytes()
	vAssert(vProtoSame(b, b2), "[C18] a decoded TxReceiptIndex re-encodes to identical bytes")
	vCover("end")
}

//verif:obligation C18.a.savedevent tier=quick bigblob=1 covers=end bounds=arbitrary-SavedEvent(every-field-by-type,byte-strings-and-lists<=1(quick)/2(thorough),optional-fields-nil-or-set,non-negative-integers)
func H_C18_SavedEvent() {
	var x SavedEvent
	VFill_SavedEvent(&x, "x")
	vC18Pre_SavedEvent(&x)
	b, err := x.ToBytes()
	vAssert(err == nil, "[C18] SavedEvent encodes")
	y := vC18New_SavedEvent()
	vAssert(y.FromBytes(b) == nil, "[C18] SavedEvent decodes from its own encoding")
	vAssert(VEq_SavedEvent(&x, y), "[C18] SavedEvent decodes from its own encoding to an equal object")
	b2, _ := y.ToBytes()
	vAssert(vProtoSame(b, b2), "[C18] a decoded SavedEvent re-encodes to identical bytes")
	vCover("end")
}

//verif:obligation C18.a.upgradevotes tier=quick bigblob=1 covers=end bounds=arbitrary-UpgradeVotes(every-field-by-type,byte-strings-and-lists<=1(quick)/2(thorough),optional-fields-nil-or-set,non-negative-integers)
func H_C18_UpgradeVotes() {
	var x UpgradeVotes
	VFill_UpgradeVotes(&x, "x")
	vC18Pre_UpgradeVotes(&x)
	b, err := x.ToBytes()
	vAssert(err == nil, "[C18] UpgradeVotes encodes")
	y := vC18New_UpgradeVotes()
	vAssert(y.FromBytes(b) == nil, "[C18] UpgradeVotes decodes from its own encoding")
	vAssert(VEq_UpgradeVotes(&x, y), "[C18] UpgradeVotes decodes from its own encoding to an equal object")
	b2, _ := y.ToBytes()
	vAssert(vProtoSame(b, b2), "[C18] a decoded UpgradeVotes re-encodes to identical bytes")
	vCover("end")
}

//verif:obligation C18.a.blockproposal tier=quick bigblob=1 covers=end bounds=arbitrary-BlockProposal-around-a-small-block(header-kind,height,flags,1-byte-seed-proof,<=1-transaction-with-nonce;Block-and-Header-in-full-are-C18.a.block/header)
func H_C18_BlockProposal() {
	var x BlockProposal
	VFill_BlockProposal(&x, "x") // every field but Block (excluded from the generated code: the product is too large)
	x.Block = &Block{Header: vC18SmallHeader(), Body: &Body{}}
	if vBool("x.Block.hasTx") {
		x.Block.Body.Transactions = []*Transaction{{AccountNonce: vU32("x.Block.tx.nonce")}}
	}
	b, err := x.ToBytes()
	vAssert(err == nil, "[C18] BlockProposal encodes")
	y := new(BlockProposal)
	vAssert(y.FromBytes(b) == nil, "[C18] BlockProposal decodes from its own encoding")
	vAssert(VEq_BlockProposal(&x, y) && y.Block != nil && VEq_Block(x.Block, y.Block) && y.Block.Header != nil && VEq_Header(x.Block.Header, y.Block.Header), "[C18] BlockProposal decodes from its own encoding to an equal object")
	b2, _ := y.ToBytes()
	vAssert(vProtoSame(b, b2), "[C18] a decoded BlockProposal re-encodes to identical bytes")
	vCover("end")
}

// a header of either kind with a few distinguishing fields (the full field list is C18.a.header)
func vC18SmallHeader() *Header {
	h := &Header{}
	if vBool("x.Block.proposed") {
		h.ProposedHeader = &ProposedHeader{Height: vU64("x.Block.height"), Flags: BlockFlag(vU32("x.Block.flags")), SeedProof: []byte{vU8("x.Block.seedProof")}}
	} else {
		h.EmptyBlockHeader = &EmptyBlockHeader{Height: vU64("x.Block.height"), Flags: BlockFlag(vU32("x.Block.flags"))}
	}
	return h
}

//verif:obligation C18.a.block tier=quick bigblob=1 covers=end bounds=arbitrary-Block:body-in-full(every-field-by-type),small-header(kind,height,flags,seed-proof;full-header-is-C18.a.header)
func H_C18_Block() {
	var x Block
	vC18Slice()
	VFill_Block(&x, "x")
	vGenLean, vGenNoOptional = false, false // every field but Header
	x.Header = vC18SmallHeader()
	b, err := x.ToBytes()
	vAssert(err == nil, "[C18] Block encodes")
	y := new(Block)
	vAssert(y.FromBytes(b) == nil, "[C18] Block decodes from its own encoding")
	vAssert(VEq_Block(&x, y) && y.Header != nil && VEq_Header(x.Header, y.Header), "[C18] Block decodes from its own encoding to an equal object")
	b2, _ := y.ToBytes()
	vAssert(vProtoSame(b, b2), "[C18] a decoded Block re-encodes to identical bytes")
	vCover("end")
}

// The product of all optional fields with all lists is too large for this type; two slices of it are explored
// instead - (every optional field and scalar, no lists / byte strings) and (every list and byte string, no
// optional fields); the thorough tier has longer byte strings in the second slice.
func vC18Slice() {
	vGenLean, vGenNoOptional = false, false
	if vChoice("slice", 2) == 0 {
		vGenLean = true
	} else {
		vGenNoOptional = true
	}
}
