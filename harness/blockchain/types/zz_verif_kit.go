package types

import "github.com/idena-network/idena-go/common"

// VSetSender primes the sender cache of a transaction (what types.Sender stores after a
// successful signature recovery), so that the real Sender returns addr without ECDSA.
func VSetSender(tx *Transaction, addr common.Address) { tx.from.Store(addr) }

// VSetHash primes the hash cache of a transaction.
func VSetHash(tx *Transaction, h common.Hash) { tx.hash.Store(h) }

// VSetHash128 primes the short-hash cache of a transaction.
func VSetHash128(tx *Transaction, h common.Hash128) { tx.hash128.Store(h) }
