package blockchain

import (
	"errors"
	"math/big"

	"github.com/idena-network/idena-go/blockchain/fee"
	"github.com/idena-network/idena-go/blockchain/types"
	"github.com/idena-network/idena-go/blockchain/validation"
	"github.com/idena-network/idena-go/common"
	"github.com/idena-network/idena-go/core/appstate"
	"github.com/idena-network/idena-go/core/state"
	"github.com/idena-network/idena-go/log"
)

// vVM: the virtual machine as environment of applyTxOnState - an arbitrary outcome (success or failure,
// any gas use within the limit it was given). What the VM does to contract state is C15.a/b's subject.
type vVM struct {
	wasm     bool
	contract common.Address
	success  bool
	useAll   bool
	limit    int64
	ran      int
}

func (v *vVM) Run(tx *types.Transaction, from *common.Address, gasLimit int64, commitToEnv bool) *types.TxReceipt {
	v.ran++
	v.limit = gasLimit
	// gas used never exceeds the limit the VM was given (VmImpl.Run caps it: usedGas = min(used, limit));
	// the two extremes (nothing / everything) are explored: what is charged is monotone in the gas used
	used := uint64(0)
	if v.useAll && gasLimit > 0 {
		used = uint64(gasLimit)
	}
	r := &types.TxReceipt{Success: v.success, GasUsed: used, ContractAddress: v.contract}
	if !v.success {
		r.Error = errors.New("contract failed")
	}
	return r
}
func (v *vVM) Read(contractAddr common.Address, method string, args ...[]byte) ([]byte, error) {
	return nil, nil
}
func (v *vVM) IsWasm(tx *types.Transaction) bool { return v.wasm }
func (v *vVM) ContractAddr(tx *types.Transaction, from *common.Address) common.Address {
	return v.contract
}

// vGasLimitSummary stands for getGasLimit in the contract-step obligations: an arbitrary limit L >= 0 with
// L * price <= maxFee - sizeFee, i.e. the bound that C15.d decides on the real function (where it holds up
// to the recorded rounding finding of less than one gas unit, which is therefore not re-reported here).
//verif:override gaslimit (*idena-go/blockchain.Blockchain).getGasLimit vGasLimitSummary
func vGasLimitSummary(chain *Blockchain, app *appstate.AppState, tx *types.Transaction) int64 {
	price := app.State.FeePerGas()
	if common.ZeroOrNil(price) {
		return 0
	}
	lb := vBig("gasLimit") // a mathematical integer: keeps the whole fee arithmetic in integer theory
	vAssume(lb.Sign() >= 0)
	vAssume(lb.Cmp(big.NewInt(1<<40)) <= 0)
	diff := new(big.Int).Sub(tx.MaxFeeOrZero(), chain.getTxFee(price, tx))
	vAssume(new(big.Int).Mul(price, lb).Cmp(diff) <= 0)
	return lb.Int64()
}

func vContractStep(t types.TxType) {
	appstate.VNoNilAmounts = true
	w, tx, _, _ := validation.VSetup(t)
	kind := validation.InBlockTx
	vAssume(validation.VPrefixPost(w, tx, kind))
	st := w.App.State
	// in-block prefix for contract transactions: the sender can pay the MAXIMAL cost (amount+tips+maxFee)
	maxCost := new(big.Int).Add(tx.Amount, tx.Tips)
	maxCost.Add(maxCost, tx.MaxFee)
	vAssume(st.GetBalance(w.S).Cmp(maxCost) >= 0)
	txFee := fee.CalculateFee(w.App.ValidatorsCache.NetworkSize(), st.FeePerGas(), tx)
	vAssume(txFee.Cmp(tx.MaxFee) <= 0)
	if err := validation.VRunValidator(t, w.App, tx, kind); err != nil {
		vCover("rejected")
		vCover("end")
		return
	}
	vm := &vVM{wasm: vBool("vm.isWasm"), success: vBool("vm.success"), useAll: vBool("vm.usesAllGas")}
	if t == types.DeployContractTx {
		vm.contract = w.F // a fresh address
	} else {
		vm.contract = *tx.To
	}
	// a contract account has no key: it never signs transactions
	vAssume(vm.contract != w.S)
	cfg := validation.VAppConfig()
	chain := &Blockchain{config: cfg, appState: w.App, log: log.New()}
	ctx := &txExecutionContext{appState: w.App, vm: vm, height: 100, blockInsertion: true}
	preS, preC := new(big.Int).Set(st.GetBalance(w.S)), new(big.Int).Set(st.GetBalance(vm.contract))
	sameAddr := vm.contract == w.S

	feePaid, receipt, _, err := chain.applyTxOnState(tx, ctx)
	if err != nil {
		vCover("applyError")
		vCover("end")
		return
	}
	vCover("applied")
	vAssert(vm.ran == 1 && receipt != nil, "[C15] the VM runs exactly once per applied contract transaction")
	postS, postC := st.GetBalance(w.S), st.GetBalance(vm.contract)
	amount := tx.Amount
	spent := new(big.Int).Add(feePaid, tx.Tips)
	// fee = size fee + gas cost of the gas actually used
	gasCost := GetGasCost(st.FeePerGas(), receipt.GasUsed)
	vAssert(feePaid.Cmp(new(big.Int).Add(txFee, gasCost)) == 0, "[C15] the fee charged is the size fee plus the cost of the gas used")
	vAssert(postS.Sign() >= 0 && postC.Sign() >= 0, "[C04,C15] no negative balance after a contract transaction")
	if !sameAddr {
		if !receipt.Success {
			vCover("failed")
			vAssert(new(big.Int).Sub(preS, postS).Cmp(spent) == 0, "[C04,C15] a failed contract transaction costs the sender exactly fee + tips (no amount moves, nothing is refunded that was not paid)")
			vAssert(postC.Cmp(preC) == 0, "[C04,C15] a failed contract transaction leaves the contract's balance untouched")
		} else {
			vCover("succeeded")
			moved := new(big.Int).Sub(preS, postS)
			moved.Sub(moved, spent)
			vAssert(moved.Sign() >= 0 && moved.Cmp(amount) <= 0, "[C04,C15] a successful contract transaction takes at most the declared amount from the sender besides fee + tips")
			vAssert(new(big.Int).Sub(postC, preC).Cmp(moved) <= 0, "[C04,C15] the contract is credited at most what the sender paid")
		}
	}
	// (fee <= maxFee is decided on the arithmetic kernel getGasLimit with exact division: C15.d)
	vCover("end")
}

var _ = state.VShape{}

//verif:obligation C04.h.deploy tier=quick use=world,gaslimit bounds=world(S,T,G,F),vm-outcome(success|failure,gas-used-0-or-all,wasm-or-embedded),getGasLimit-as-summary covers=applied,failed,succeeded
//verif:obligation C15.c.deploy tier=quick use=world,gaslimit bounds=world(S,T,G,F),vm-outcome(success|failure,gas-used-0-or-all,wasm-or-embedded),getGasLimit-as-summary covers=applied,failed,succeeded
// Contract branch of applyTxOnState (real code) for a DeployContractTx with the VM as an arbitrary outcome.
func H_Contract_Deploy() { vContractStep(types.DeployContractTx) }

//verif:obligation C04.h.call tier=quick use=world,gaslimit bounds=as-deploy covers=applied,failed,succeeded
//verif:obligation C15.c.call tier=quick use=world,gaslimit bounds=as-deploy covers=applied,failed,succeeded
func H_Contract_Call() { vContractStep(types.CallContractTx) }

//verif:obligation C04.h.terminate tier=quick use=world,gaslimit bounds=as-deploy covers=applied,failed,succeeded
//verif:obligation C15.c.terminate tier=quick use=world,gaslimit bounds=as-deploy covers=applied,failed,succeeded
func H_Contract_Terminate() { vContractStep(types.TerminateContractTx) }

//verif:obligation C15.d tier=quick use=world exact=1 bounds=all-non-negative-maxFee(mathematical-integer),gas-price-from-{1,3,10,1e16,2e16,1e17+7},size-fee-0 covers=positive
//verif:obligation C04.f tier=quick use=world exact=1 bounds=all-non-negative-maxFee(mathematical-integer),gas-price-from-{1,3,10,1e16,2e16,1e17+7},size-fee-0 covers=positive
// getGasLimit (real code incl. shopspring/decimal, exact integer semantics): the gas the VM is allowed to
// use never costs more than what the declared maximal fee leaves after the size fee:
// txFee + gasLimit*feePerGas <= maxFee. KNOWN to fail by less than one gas unit for large gas prices
// (decimal.Div rounds half up at 16 digits before the truncation) - see known_findings.json.
func H_GasLimit() {
	appstate.VNoNilAmounts = true
	w, tx, _, _ := validation.VSetup(types.CallContractTx)
	st := w.App.State
	// the gas price is drawn from representative constants (symbolic/symbolic integer division is
	// undecidable in practice for all three solvers); the maximal fee stays an arbitrary integer
	prices := []string{"1", "3", "10", "10000000000000000", "20000000000000000", "100000000000000007"}
	pc, _ := new(big.Int).SetString(prices[vChoice("gasPrice", len(prices))], 10)
	st.SetFeePerGas(pc)
	feePerGas := st.FeePerGas()
	vAssume(w.NetworkSize == 0) // size fee 0: the whole maximal fee buys gas (the arithmetic is the subject)
	chain := &Blockchain{config: validation.VAppConfig(), appState: w.App, log: log.New()}
	txFee := chain.getTxFee(feePerGas, tx)
	vAssume(tx.MaxFee.Sign() >= 0)
	vAssume(txFee.Cmp(tx.MaxFee) <= 0)
	// ValidateFee (upgrade 10+) rejects a maximal fee that buys more gas than a block holds (TooHighMaxFee:
	// maxFee / minFeePerGas <= 5,120,000 and the state's fee rate is never below the minimum); assumed here
	// with a wide margin - without it (legacy rule set) the int64 conversion of the limit can overflow
	vAssume(tx.MaxFee.Cmp(new(big.Int).Mul(feePerGas, big.NewInt(1<<40))) <= 0)
	vCover("positive")
	diff := new(big.Int).Sub(tx.MaxFee, txFee)
	limit := chain.getGasLimit(w.App, tx)
	cost := new(big.Int).Mul(feePerGas, big.NewInt(limit))
	vAssert(limit >= 0, "[C04,C15] gas limit is never negative when the size fee fits into the maximal fee")
	// first the bound that must always hold (decided before the known finding constrains the path):
	// whatever the rounding does, the overshoot stays below one gas unit
	if limit > 0 {
		less := new(big.Int).Mul(feePerGas, big.NewInt(limit-1))
		vAssert(less.Cmp(diff) <= 0, "[C04,C15] (gasLimit-1)*price <= maxFee - sizeFee: an overshoot is always smaller than one gas unit")
	}
	vAssert(cost.Cmp(diff) <= 0, "[C04,C15] gas limit times gas price never exceeds what the maximal fee leaves after the size fee")
	vCover("end")
}
