package blockchain

import (
	"math/big"
	"time"

	"github.com/idena-network/idena-go/blockchain/types"
	"github.com/idena-network/idena-go/common"
	"github.com/idena-network/idena-go/config"
	"github.com/idena-network/idena-go/core/appstate"
	"github.com/idena-network/idena-go/core/mempool"
	"github.com/idena-network/idena-go/core/state"
	"github.com/idena-network/idena-go/core/upgrade"
	"github.com/idena-network/idena-go/crypto"
	"github.com/idena-network/idena-go/ipfs"
	"github.com/ipfs/go-cid"
	"github.com/idena-network/idena-go/secstore"
	"github.com/idena-network/idena-go/stats/collector"
)

// C02.d: ProposeBlock vs validateBlock, step order relative to the state. The check state is abstracted to
// a VERSION that every state-mutating callee advances; every callee that reads the state returns a value
// that is a function of the version at which it is called (and of its data arguments). The block the real
// ProposeBlock assembles must then be accepted by the real validateBlock run from version 0 with the same
// stub functions - which it is exactly when both perform their state reads at the same state moments.
type vC02dEnv struct {
	version   int
	ctxTag    map[*blockRewardCtx]int
	txs       []*types.Transaction
	receipts  types.TxReceipts
	offline   bool
	canUp     bool
	cidCalls  int
	fee       *big.Int
	bodyCid, rcptCid byte
}

// ipfs as a function: the empty input has the empty cid (as ipfsProxy.Cid), the body (first request of either
// path) and the receipts (second) have arbitrary non-empty ones.
type vC02dIpfs struct{ vC03Ipfs }

func (vC02dIpfs) Cid(data []byte) (cid.Cid, error) {
	vC02d.cidCalls++
	if len(data) == 0 {
		return ipfs.EmptyCid, nil
	}
	if vC02d.cidCalls == 1 {
		return vCid(vC02d.bodyCid), nil
	}
	return vCid(vC02d.rcptCid), nil
}

var vC02d *vC02dEnv

//verif:override c02d (*idena-go/core/mempool.TxPool).BuildBlockTransactions vC02dBuild
func vC02dBuild(p *mempool.TxPool) []*types.Transaction { return vC02d.txs }

//verif:override c02d (*idena-go/secstore.SecStore).VrfEvaluate vC02dVrf
func vC02dVrf(s *secstore.SecStore, data []byte) (index [32]byte, proof []byte) {
	index[0] = 0x42
	return index, []byte{1}
}

//verif:override c02d (*idena-go/secstore.SecStore).Sign vC02dSign
func vC02dSign(s *secstore.SecStore, data []byte) []byte { return []byte{1} }

//verif:override c02d idena-go/crypto.SignatureHash vC02dSigHash
func vC02dSigHash(h crypto.SignatureHasher) [32]byte { return [32]byte{} }

//verif:override c02d (*idena-go/blockchain.OfflineDetector).ProposeOffline vC02dProposeOffline
func vC02dProposeOffline(dt *OfflineDetector, head *types.Header) (*common.Address, types.BlockFlag) {
	if vC02d.offline {
		a := common.Address{7}
		return &a, types.OfflinePropose
	}
	return nil, 0
}

//verif:override c02d (*idena-go/core/appstate.AppState).ForCheck vC02dForCheck
func vC02dForCheck(s *appstate.AppState, height uint64) (*appstate.AppState, error) {
	return &appstate.AppState{State: &state.StateDB{}}, nil
}

//verif:override c02d (*idena-go/core/upgrade.Upgrader).CanUpgrade vC02dCanUpgrade
func vC02dCanUpgrade(u *upgrade.Upgrader) bool { return vC02d.canUp }

//verif:override c02d (*idena-go/core/upgrade.Upgrader).UpgradeBits vC02dUpgradeBits
func vC02dUpgradeBits(u *upgrade.Upgrader) uint32 { return 10 }

//verif:override c02d (*idena-go/blockchain/types.Header).Hash vC02dHeaderHash
func vC02dHeaderHash(h *types.Header) common.Hash { return common.Hash{9} }

//verif:override c02d (*idena-go/core/state.StateDB).FeePerGas vC02dFee
func vC02dFee(s *state.StateDB) *big.Int { return vC02d.fee }

//verif:override c02d (*idena-go/blockchain.Blockchain).ValidateHeader vC02dValidateHeader
func vC02dValidateHeader(chain *Blockchain, header, prev *types.Header) error { return nil }

//verif:override c02d idena-go/blockchain.checkIfProposer vC02dCheckIfProposer
func vC02dCheckIfProposer(addr common.Address, app *appstate.AppState) bool { return true }

//verif:override c02d idena-go/crypto.PubKeyBytesToAddress vC02dPubKeyAddr
func vC02dPubKeyAddr(b []byte) (common.Address, error) { return common.Address{1}, nil }

//verif:override c02d idena-go/blockchain/types.DeriveSha vC02dDeriveSha
func vC02dDeriveSha(list types.DerivableList) common.Hash {
	var h common.Hash
	h[0] = byte(list.Len() + 1)
	return h
}

//verif:override c02d time.Now vC02dNow
func vC02dNow() time.Time { return time.Unix(vHdrNow, 0) }

//verif:override c02d idena-go/blockchain.calculateTxBloom vC02dBloom
func vC02dBloom(block *types.Block, receipts types.TxReceipts) []byte {
	if len(block.Body.Transactions) == 0 {
		return []byte{}
	}
	return []byte{byte(len(block.Body.Transactions)), byte(len(receipts))}
}

// ---- state readers / writers, as functions of the state version ----

//verif:override c02d (*idena-go/blockchain.Blockchain).prepareBlockRewardCtx vC02dRewardCtx
func vC02dRewardCtx(chain *Blockchain, proposer common.Address, app *appstate.AppState, h uint64, prev *types.Header) *blockRewardCtx {
	c := &blockRewardCtx{}
	vC02d.ctxTag[c] = vC02d.version // stake weights as they are at this state moment
	return c
}

//verif:override c02d (*idena-go/blockchain.Blockchain).filterTxs vC02dFilterTxs
func vC02dFilterTxs(chain *Blockchain, app *appstate.AppState, txs []*types.Transaction, header *types.ProposedHeader) ([]*types.Transaction, *big.Int, *big.Int, types.TxReceipts, uint64) {
	vC02d.version += 10 * (len(txs) + 1)
	return txs, big.NewInt(3), big.NewInt(1), vC02d.receipts, 77
}

//verif:override c02d (*idena-go/blockchain.Blockchain).processTxs vC02dProcessTxs
func vC02dProcessTxs(chain *Blockchain, txs []*types.Transaction, ctx *txsExecutionContext) (*big.Int, *big.Int, types.TxReceipts, []task, uint64, error) {
	vC02d.version += 10 * (len(txs) + 1)
	return big.NewInt(3), big.NewInt(1), vC02d.receipts, nil, 77, nil
}

//verif:override c02d idena-go/blockchain.applyHotfixToState vC02dHotfix
func vC02dHotfix(app *appstate.AppState, prev *types.Header) { vC02d.version += 1000 }

//verif:override c02d (*idena-go/blockchain.Blockchain).calculateFlags vC02dFlags
func vC02dFlags(chain *Blockchain, app *appstate.AppState, block *types.Block, prev *types.Header) types.BlockFlag {
	// period / snapshot / identity-update flags are read from the state as it is now
	return types.BlockFlag(uint32(vC02d.version%7) << 2)
}

//verif:override c02d (*idena-go/blockchain.Blockchain).applyBlockOnState vC02dApplyBlock
func vC02dApplyBlock(chain *Blockchain, app *appstate.AppState, block *types.Block, totalFee, totalTips *big.Int, usedGas uint64, ctx *blockRewardCtx, sc collector.StatsCollector) (common.Hash, common.Hash, []*state.StateTreeDiff, *state.IdentityStateDiff) {
	var r, ir common.Hash
	tag := vC02d.ctxTag[ctx]
	r[0], r[1], r[2] = byte(vC02d.version), byte(vC02d.version>>8), byte(tag)
	r[3], r[4] = byte(totalFee.Int64()), byte(usedGas)
	ir[0], ir[1] = byte(vC02d.version), byte(uint32(block.Header.Flags()))
	vC02d.version += 100000
	return r, ir, nil, nil
}

//verif:obligation C02.d tier=quick use=c02d bounds=<=2-transactions,receipts-present-or-not,offline-proposal-or-not,upgrade-bits-or-not,state-as-version-counter covers=accepted,withTxs
// ProposeBlock (real code) followed by validateBlock (real code) on the proposed block, with the state
// abstracted to a version counter: the proposer's own block passes validation, i.e. both paths read the
// state (reward context, flags, roots) at the same state moments and fill/compare the same header fields.
func H_C02d() {
	e := &vC02dEnv{ctxTag: map[*blockRewardCtx]int{}, offline: vBool("offlineProposal"), canUp: vBool("canUpgrade"), fee: big.NewInt(int64(vU8("state.feePerGas")))}
	n := vChoice("txs", 3)
	for i := 0; i < n; i++ {
		tx := &types.Transaction{Type: types.SendTx, AccountNonce: uint32(i + 1)}
		var s common.Address
		s[0], s[19] = 0xa0, byte(i+1)
		types.VSetSender(tx, s)
		e.txs = append(e.txs, tx)
	}
	if n > 0 {
		vCover("withTxs")
	}
	if vBool("hasReceipts") {
		e.receipts = types.TxReceipts{&types.TxReceipt{Success: true}}
	}
	vC02d = e
	e.bodyCid, e.rcptCid = vU8("bodyCid"), vU8("receiptsCid")
	vAssume(e.bodyCid != 0)
	vAssume(e.rcptCid != 0)
	vHdrNow = 1700000000
	head := &types.Header{EmptyBlockHeader: &types.EmptyBlockHeader{Height: 7, Time: vHdrNow - 60}}
	cons := *config.GetDefaultConsensusConfig()
	cfg := &config.Config{Consensus: &cons}
	chain := &Blockchain{config: cfg, Head: head, appState: &appstate.AppState{State: &state.StateDB{}}, txpool: &mempool.TxPool{}, secStore: &secstore.SecStore{},
		offlineDetector: &OfflineDetector{}, upgrader: upgrade.VNewUpgrader(cfg), ipfs: vC02dIpfs{}, pubKey: []byte{1}}

	proposal := chain.ProposeBlock([]byte{1})

	// ---- any honest validator with the same head ----
	e.version = 0
	e.cidCalls = 0
	check := &appstate.AppState{State: &state.StateDB{}}
	_, err := chain.validateBlock(check, proposal.Block, head, nil)
	if err == nil {
		vCover("accepted")
	}
	vAssert(err == nil, "the block an honest proposer assembles passes validateBlock on a node with the same head")
	vCover("end")
}
