package blockchain

import (
	"math"

	"github.com/idena-network/idena-go/blockchain/types"
	"github.com/idena-network/idena-go/common"
	"github.com/idena-network/idena-go/config"
	"github.com/idena-network/idena-go/core/validators"
)

// Signature model (DESIGN §3.3): a signature is made by signer k over one vote header; recovering it
// under a different header yields an unrelated key. Encoded in the signature bytes:
// [signer, round-tag, votedHash-tag, parentHash-tag, step, turnOffline, upgrade-tag].
var vC07Signers []common.Address
var vC07Hashes map[*types.Header]common.Hash

//verif:override c07 (*idena-go/blockchain/types.Vote).VoterAddr vC07VoterAddr
func vC07VoterAddr(v *types.Vote) common.Address {
	s := v.Signature
	outsider := validators.VAddrN(0x77)
	if len(s) != 7 || int(s[0]) >= len(vC07Signers) {
		return outsider
	}
	h := v.Header
	to := byte(0)
	if h.TurnOffline {
		to = 1
	}
	same := vAnd(vAnd(byte(h.Round) == s[1], h.VotedHash[0] == s[2]), vAnd(h.ParentHash[0] == s[3], vAnd(h.Step == s[4], vAnd(to == s[5], byte(h.Upgrade) == s[6]))))
	if same {
		return vC07Signers[s[0]]
	}
	return outsider
}

//verif:override c07 (*idena-go/blockchain/types.Header).Hash vC07HeaderHash
func vC07HeaderHash(h *types.Header) common.Hash { return vC07Hashes[h] }

//verif:override c07 (*idena-go/blockchain/types.Header).Seed vC07HeaderSeed
func vC07HeaderSeed(h *types.Header) types.Seed { return types.Seed{} }

func vTable(n int) int {
	switch {
	case n <= 1:
		return 1
	case n <= 3:
		return 2
	case n <= 5:
		return 3
	case n <= 7:
		return 4
	}
	return 5
}

func vHas(l []common.Address, a common.Address) bool {
	for _, x := range l {
		if x == a {
			return true
		}
	}
	return false
}

func vAddUnique(l []common.Address, a common.Address) []common.Address {
	if vHas(l, a) {
		return l
	}
	return append(l, a)
}

// vReference: committee, eligible voters and required number of distinct votes, computed naively from
// the identity-state content (networks of at most 8 validators: the committee is the whole list).
func vReference(entries []validators.VEntry, god common.Address) (original, approved []common.Address, needed int) {
	online := 0
	for _, e := range entries {
		if e.Present && e.Data.Online {
			online++
		}
	}
	if online == 0 {
		return []common.Address{god}, []common.Address{god}, 1
	}
	find := func(a common.Address) *validators.VEntry {
		for i := range entries {
			if entries[i].Present && entries[i].Addr == a {
				return &entries[i]
			}
		}
		return nil
	}
	delegatorsOf := func(p common.Address) []common.Address {
		var r []common.Address
		for _, e := range entries {
			if e.Present && e.Data.Delegatee != nil && *e.Data.Delegatee == p {
				r = append(r, e.Addr)
			}
		}
		return r
	}
	for _, e := range entries {
		if !e.Present || !e.Data.Online {
			continue
		}
		if e.Data.Validated {
			original = vAddUnique(original, e.Addr)
		}
		for _, d := range delegatorsOf(e.Addr) {
			original = vAddUnique(original, d)
		}
	}
	var voters []common.Address
	for _, a := range original {
		e := find(a)
		if e != nil && e.Data.Delegatee != nil {
			p := *e.Data.Delegatee
			voters = vAddUnique(voters, p)
			// a pool is eligible while at least one of its members (or itself) is validated and not discriminated
			ok := false
			if pe := find(p); pe != nil && pe.Data.Validated && !pe.Data.Discriminated {
				ok = true
			}
			for _, d := range delegatorsOf(p) {
				if de := find(d); de.Data.Validated && !de.Data.Discriminated {
					ok = true
				}
			}
			if ok {
				approved = vAddUnique(approved, p)
			}
		} else {
			voters = vAddUnique(voters, a)
			if e == nil || !e.Data.Discriminated {
				approved = vAddUnique(approved, a)
			}
		}
	}
	needed = vTable(len(original)) - int(math.Round(float64(len(original)-len(approved))*0.65))
	return original, approved, needed
}

//verif:obligation C07.a tier=quick use=c10,c07 timeout_ms=60000 bounds=3-identities+1-pool(<=8-validators:committee=whole-list),<=1-signature,signers-incl-outsider,each-signed-field-matching-or-not covers=accepted,rejected,godonly,pool
// ValidateBlockCert (real code, real ValidatorsCache built by its own Load, real GetOnlineValidators /
// GetCommitteeSize / GetCommitteeVotesThreshold / VotesCountSubtrahend) accepts a certificate IFF every
// signature recovers - under THIS block hash, parent, round and step - to an eligible committee member
// and the number of DISTINCT such members reaches the quorum computed by an independent reference.
func H_C07a() {
	pool := validators.VAddrN(9)
	god := validators.VAddrN(0x55)
	addrs := []common.Address{validators.VAddrN(1), validators.VAddrN(2), validators.VAddrN(3), pool}
	var entries []validators.VEntry
	for i := 0; i < 3; i++ {
		entries = append(entries, validators.VSymEntry("S"+string(rune('1'+i)), addrs[i], pool, true))
	}
	entries = append(entries, validators.VSymEntry("Spool", pool, pool, false))
	vc := validators.VNewCache(entries, god)

	height := uint64(vU8("height"))
	prev := &types.Header{EmptyBlockHeader: &types.EmptyBlockHeader{Height: height - 1}}
	block := &types.Header{ProposedHeader: &types.ProposedHeader{Height: height}}
	var hp, hb common.Hash
	hp[0], hb[0] = vU8("prevHash"), vU8("blockHash")
	vC07Hashes = map[*types.Header]common.Hash{prev: hp, block: hb}
	vC07Signers = append(append([]common.Address{}, addrs...), god, validators.VAddrN(0x66)) // 4 members, god, an outsider

	cert := &types.BlockCert{Round: uint64(vU8("cert.round")), Step: vU8("cert.step")}
	cert.VotedHash[0] = vU8("cert.votedHash")
	// at most one signature in both tiers: certificates of two signatures did not complete within an hour
	// (distinctness of several signers is the subject of C07.d on the vote counter)
	nsig := vChoice("signatures", 2)
	for i := 0; i < nsig; i++ {
		signer := vU8("sig.signer")
		vAssume(signer <= 5)
		to := vBool("sig.turnOffline")
		tob := byte(0)
		if to {
			tob = 1
		}
		up := vU8("sig.upgrade")
		sig := []byte{signer, vU8("sig.round"), vU8("sig.votedHash"), vU8("sig.parentHash"), vU8("sig.step"), tob, up}
		cert.Signatures = append(cert.Signatures, &types.BlockCertSignature{TurnOffline: to, Upgrade: uint32(up), Signature: sig})
	}
	conf := *config.GetDefaultConsensusConfig()
	chain := &Blockchain{config: &config.Config{Consensus: &conf}}

	err := chain.ValidateBlockCert(prev, block, cert, vc, nil)

	// ---- independent reference ----
	original, approved, needed := vReference(entries, god)
	if len(original) == 1 && original[0] == god {
		vCover("godonly")
	}
	if vHas(approved, pool) {
		vCover("pool")
	}
	allOK := true
	var distinct []common.Address
	for _, s := range cert.Signatures {
		sg := s.Signature
		// the address this signature recovers to under the vote the validator reconstructs
		matches := sg[1] == byte(cert.Round) && sg[2] == cert.VotedHash[0] && sg[3] == hp[0] && sg[4] == cert.Step
		who := validators.VAddrN(0x77)
		if matches {
			who = vC07Signers[sg[0]]
		}
		if !vHas(approved, who) || cert.Round != height || cert.VotedHash != hb {
			allOK = false
			break
		}
		distinct = vAddUnique(distinct, who)
	}
	want := allOK && len(distinct) >= needed
	if err == nil {
		vCover("accepted")
	} else {
		vCover("rejected")
	}
	vAssert((err == nil) == want, "certificate accepted iff a quorum of distinct eligible committee votes over this block, parent and round")
	vCover("end")
}
