package main

import (
	"encoding/json"
	"flag"
	"fmt"
	"os"
	"os/exec"
	"path/filepath"
	"runtime/pprof"
	"sort"
	"strconv"
	"strings"
	"time"

	"verif/engine/sx"
)

var nativeHooks map[string]string

var (
	verifDir = envOr("VERIF_DIR", "/verif")
	repoDir  = envOr("VERIF_REPO", "/repo")
)

func envOr(k, d string) string {
	if v := os.Getenv(k); v != "" {
		return v
	}
	return d
}

func main() {
	if pp := os.Getenv("VERIF_PPROF"); pp != "" {
		f, _ := os.Create(pp)
		pprof.StartCPUProfile(f)
		defer pprof.StopCPUProfile()
	}
	if len(os.Args) < 2 {
		fmt.Fprintln(os.Stderr, "usage: gosmt check <property> [--tier quick|thorough] | list | replay <cex.json> | selftest")
		os.Exit(2)
	}
	switch os.Args[1] {
	case "list":
		obls, err := sx.Discover(filepath.Join(verifDir, "harness"))
		if err != nil {
			fatal(err)
		}
		for _, o := range obls {
			fmt.Printf("%-8s %-9s %-22s %s %v\n", o.ID, o.Tier, o.Pkg, o.Func, o.Opts)
		}
	case "check":
		rc := cmdCheck(os.Args[2:])
		pprof.StopCPUProfile()
		os.Exit(rc)
	case "replay":
		os.Exit(cmdReplay(os.Args[2:]))
	case "selftest":
		os.Exit(cmdSelftest(os.Args[2:]))
	default:
		fmt.Fprintln(os.Stderr, "unknown command", os.Args[1])
		os.Exit(2)
	}
}

func fatal(err error) {
	fmt.Fprintln(os.Stderr, "HARNESS-ERROR:", err)
	os.Exit(2)
}

type knownFinding struct {
	Property   string `json:"property"`
	Obligation string `json:"obligation"`
	Status     string `json:"status"` // known | fixed
	MsgContains   string `json:"msg_contains"`
	WhereContains string `json:"where_contains"`
	ModelContains map[string]string `json:"model_contains,omitempty"`
	Description string `json:"description"`
	Commit     string `json:"commit,omitempty"`
}

func loadKnown() []knownFinding {
	b, err := os.ReadFile(filepath.Join(verifDir, "known_findings.json"))
	if err != nil {
		return nil
	}
	var doc struct {
		Findings []knownFinding `json:"findings"`
	}
	if err := json.Unmarshal(b, &doc); err != nil {
		fatal(fmt.Errorf("known_findings.json: %v", err))
	}
	return doc.Findings
}

func matchKnown(k knownFinding, obl string, v sx.Violation) bool {
	if k.Status != "known" {
		return false
	}
	if k.Obligation != "" && k.Obligation != obl {
		return false
	}
	if k.MsgContains != "" && !strings.Contains(v.Msg, k.MsgContains) {
		return false
	}
	if k.WhereContains != "" && !strings.Contains(v.Where, k.WhereContains) {
		return false
	}
	for name, want := range k.ModelContains {
		if got, ok := v.Model[name]; !ok || !strings.HasSuffix(got, ":"+want) {
			return false
		}
	}
	return true
}

type oblEvidence struct {
	ID          string            `json:"id"`
	Harness     string            `json:"harness"`
	Description string            `json:"description,omitempty"`
	Verdict     string            `json:"verdict"`
	Paths       int               `json:"paths"`
	PathsOK     int               `json:"paths_completed"`
	Infeasible  int               `json:"paths_infeasible"`
	Inconclusive int              `json:"paths_inconclusive"`
	Panics      int               `json:"paths_ending_in_panic"`
	AssertsSolver int             `json:"assertions_sent_to_solver"`
	AssertsDischarged int         `json:"assertions_discharged_unsat"`
	AssertsConst int              `json:"assertions_folded_constant_true"`
	Queries     map[string]int    `json:"queries"`
	SolverS     float64           `json:"solver_s"`
	WallS       float64           `json:"wall_s"`
	Steps       int64             `json:"ssa_instructions_executed"`
	Forks       int               `json:"forks"`
	Covers      map[string]int    `json:"vacuity_witnesses_reached"`
	MissingCovers []string        `json:"vacuity_witnesses_missing,omitempty"`
	Bounds      map[string]string `json:"bounds"`
	Notes       map[string]int    `json:"notes,omitempty"`
	Events      map[string]int    `json:"events,omitempty"`
	InconclusiveReasons map[string]int `json:"inconclusive_reasons,omitempty"`
	Violations  []vioEvidence     `json:"violations,omitempty"`
	SamplePaths []string          `json:"sample_paths,omitempty"`
	TVSamples   int               `json:"translator_validation_samples"`
	TVMismatches []string         `json:"translator_validation_mismatches,omitempty"`
}

type vioEvidence struct {
	Kind   string `json:"kind"`
	Msg    string `json:"msg"`
	Where  string `json:"where"`
	Cex    string `json:"cex"`
	Replay string `json:"replay"` // reproduced | not-reproduced | skipped
	Known  string `json:"known_finding,omitempty"`
}

func cmdCheck(args []string) int {
	fs := flag.NewFlagSet("check", flag.ExitOnError)
	tier := fs.String("tier", envOr("VERIF_TIER", "quick"), "quick|thorough")
	only := fs.String("only", "", "run only this obligation id (comma separated)")
	workers := fs.Int("workers", 16, "parallel workers")
	solver := fs.String("solver", "z3", "z3|z3-new|cvc5")
	logSMT := fs.Bool("log-smt", false, "keep solver transcripts under out/<prop>/smt")
	noReplay := fs.Bool("no-replay", false, "skip native replay of counterexamples")
	nwit := fs.Int("witnesses", 8, "per-obligation witness inputs replayed natively (translator validation); 0 disables")
	maxPaths := fs.Int("maxpaths", 0, "override the path limit (profiling)")
	noEvidence := fs.Bool("no-evidence", false, "do not write the evidence file")
	var prop string
	if len(args) > 0 && !strings.HasPrefix(args[0], "-") {
		prop = args[0]
		args = args[1:]
	}
	fs.Parse(args)
	if prop == "" {
		fmt.Fprintln(os.Stderr, "usage: gosmt check <property>")
		return 2
	}
	seed, _ := strconv.Atoi(envOr("VERIF_SEED", "0"))
	t0 := time.Now()
	harnessDir := filepath.Join(verifDir, "harness")
	outDir := filepath.Join(verifDir, "out", prop)
	os.RemoveAll(outDir)
	os.MkdirAll(outDir, 0o755)
	all, err := sx.Discover(harnessDir)
	if err != nil {
		fatal(err)
	}
	onlySet := map[string]bool{}
	for _, o := range strings.Split(*only, ",") {
		if o != "" {
			onlySet[o] = true
		}
	}
	var obls []sx.Obligation
	for _, o := range all {
		if o.Prop != prop {
			continue
		}
		if len(onlySet) > 0 {
			if !onlySet[o.ID] {
				continue
			}
		} else if *tier == "quick" && o.Tier != "quick" {
			continue
		} else if o.Tier == "extended" {
			continue // only on request (--only): obligations that take hours
		}
		obls = append(obls, o)
	}
	if len(obls) == 0 {
		fmt.Fprintf(os.Stderr, "HARNESS-ERROR: no obligations for %s\n", prop)
		return 2
	}
	genDir := filepath.Join(verifDir, "out", "gen-"+prop)
	if err := sx.GenerateSupport(harnessDir, genDir, all); err != nil {
		fatal(err)
	}
	if err := genTypes(repoDir, harnessDir, genDir); err != nil {
		fmt.Println("HARNESS-ERROR: type-directed support could not be generated:", err)
		return 2
	}
	pkgSet := map[string]bool{}
	for _, o := range obls {
		pkgSet[o.Pkg] = true
	}
	var pkgs []string
	for p := range pkgSet {
		pkgs = append(pkgs, p)
	}
	sort.Strings(pkgs)
	tl := time.Now()
	P, err := sx.Load(repoDir, []string{harnessDir, genDir}, pkgs)
	if err != nil {
		fmt.Println("HARNESS-ERROR: cannot load /repo with harness overlays:", err)
		return 2
	}
	loadS := time.Since(tl).Seconds()
	nativeHooks, err = P.GenerateNativeHooks(repoDir, filepath.Join(outDir, "nativehooks"), usedSetsOf(all))
	if err != nil {
		fmt.Println(err)
		return 2
	}
	known := loadKnown()
	var evs []oblEvidence
	funcs := map[string]bool{}
	stubs := map[string]bool{}
	assumes := map[string]bool{}
	exit := 0
	totalQ := map[string]int{}
	var solverS float64
	nViol := 0
	var samples []interface{}
	initIncomplete := map[string]bool{}
	tvSamples, tvMismatches := 0, 0
	for _, o := range obls {
		cfg := sx.DefaultConfig()
		cfg.Workers = *workers
		cfg.Solver = *solver
		cfg.Thorough = *tier == "thorough"
		curTier = *tier
		cfg.MaxDecisions = o.IntOpt("decisions", cfg.MaxDecisions)
		cfg.MaxPaths = o.IntOpt("paths", cfg.MaxPaths)
		if *maxPaths > 0 {
			cfg.MaxPaths = *maxPaths
		}
		cfg.MaxSliceLen = o.IntOpt("slicelen", cfg.MaxSliceLen)
		cfg.MaxPermute = o.IntOpt("permute", cfg.MaxPermute)
		cfg.MaxBigBytes = o.IntOpt("bigbytes", 4)
		cfg.BigBlob = o.Opts["bigblob"] == "1"
		cfg.SolverTimeoutMs = o.IntOpt("timeout_ms", cfg.SolverTimeoutMs)
		cfg.MaxBlockVisits = o.IntOpt("blockvisits", cfg.MaxBlockVisits)
		if o.Opts["panics"] == "ok" {
			cfg.PanicIsViolation = false
		}
		cfg.StopAtFirstViolation = o.Opts["all_violations"] != "1"
		oid := o.ID
		cfg.IsKnown = func(v sx.Violation) bool {
			for _, k := range known {
				if k.Property == prop && matchKnown(k, oid, v) {
					return true
				}
			}
			return false
		}
		cfg.Witnesses = *nwit
		if cfg.Thorough && *nwit == 8 {
			cfg.Witnesses = 64
		}
		cfg.ExactNonlinear = o.Opts["exact"] == "1"
		cfg.AssertTag = prop
		cfg.NoMerge = o.Opts["merge"] == "off" || os.Getenv("VERIF_NOMERGE") != ""
		cfg.ProfileForks = os.Getenv("VERIF_FORKS") != ""
		if *logSMT {
			cfg.LogDir = filepath.Join(outDir, "smt")
		}
		E, err := sx.NewEngine(P, cfg, strings.Split(o.Opts["use"], ","))
		if err != nil {
			fmt.Println(err)
			return 2
		}
		if err := E.RunInit(); err != nil {
			fmt.Println("HARNESS-ERROR:", err)
			return 2
		}
		if os.Getenv("VERIF_DEBUG") != "" {
			fmt.Printf("load %.1fs init %.1fs incomplete inits: %v\n", loadS, E.InitSec, E.InitIncomplete)
		}
		for _, ii := range E.InitIncomplete {
			initIncomplete[ii] = true
		}
		h := P.FuncByName(sx.RepoMod + "/" + o.Pkg + "." + o.Func)
		if h == nil {
			fmt.Printf("HARNESS-ERROR: harness function %s.%s not found\n", o.Pkg, o.Func)
			return 2
		}
		R := E.Explore(o.ID, h)
		ev := oblEvidence{ID: o.ID, Harness: o.Pkg + "." + o.Func, Description: o.Desc, Paths: R.Paths, PathsOK: R.OK, Infeasible: R.Infeasible,
			Inconclusive: R.Inconclusive, Panics: R.Panics, AssertsSolver: R.AssertsChecked, AssertsDischarged: R.AssertsDischarged,
			AssertsConst: R.AssertsConst, Queries: map[string]int{"sat": R.Sat, "unsat": R.Unsat, "unknown": R.Unknown},
			SolverS: round(R.SolverSecs), WallS: round(R.WallSecs), Steps: R.Steps, Forks: R.Forks, Covers: R.Covers, Notes: R.Notes,
			Events: R.Events, InconclusiveReasons: R.InconclusiveReasons, SamplePaths: R.SamplePaths,
			Bounds: map[string]string{"max_decisions_per_path": fmt.Sprint(cfg.MaxDecisions), "max_paths": fmt.Sprint(cfg.MaxPaths),
				"max_slice_len_for_symbolic_lengths": fmt.Sprint(cfg.MaxSliceLen), "max_block_visits": fmt.Sprint(cfg.MaxBlockVisits),
				"solver_timeout_ms": fmt.Sprint(cfg.SolverTimeoutMs), "harness_bounds": o.Opts["bounds"]}}
		totalQ["sat"] += R.Sat
		totalQ["unsat"] += R.Unsat
		totalQ["unknown"] += R.Unknown
		solverS += R.SolverSecs
		for f := range R.Funcs {
			funcs[f] = true
		}
		for s := range R.Stubs {
			stubs[s] = true
		}
		for a := range R.Assumes {
			assumes[a] = true
		}
		verdict := "holds-within-bounds"
		// vacuity: required covers
		req := []string{"end"}
		if c := o.Opts["covers"]; c != "" {
			req = append(req, strings.Split(c, ",")...)
		}
		if o.Opts["noend"] == "1" {
			req = req[1:]
		}
		for _, c := range req {
			if R.Covers[c] == 0 {
				ev.MissingCovers = append(ev.MissingCovers, c)
			}
		}
		if R.Inconclusive > 0 || R.Truncated || R.Unknown > 0 {
			verdict = "inconclusive"
		}
		if len(ev.MissingCovers) > 0 && verdict != "inconclusive" && len(R.Violations) == 0 {
			verdict = "vacuous"
		}
		// violations: dedupe by (kind,msg,where)
		seen := map[string]bool{}
		idx := 0
		for _, v := range R.Violations {
			key := v.Kind + "|" + v.Msg + "|" + v.Where
			if seen[key] {
				continue
			}
			seen[key] = true
			idx++
			cexPath := filepath.Join(outDir, fmt.Sprintf("%s.%d.cex.json", o.ID, idx))
			doc := map[string]interface{}{"property": prop, "obligation": o.ID, "package": o.Pkg, "harness": o.Func, "kind": v.Kind,
				"msg": v.Msg, "where": v.Where, "use": o.Opts["use"], "tier": *tier, "model": v.Model, "decisions": v.Decisions, "choices": v.Choices}
			b, _ := json.MarshalIndent(doc, "", " ")
			os.WriteFile(cexPath, b, 0o644)
			ve := vioEvidence{Kind: v.Kind, Msg: v.Msg, Where: v.Where, Cex: cexPath, Replay: "skipped"}
			isKnown := false
			for _, k := range known {
				if k.Property == prop && matchKnown(k, o.ID, v) {
					ve.Known = k.Description
					isKnown = true
					break
				}
			}
			if !*noReplay && o.Opts["replay"] != "none" {
				ok, out := nativeReplay(cexPath, genDir)
				if ok {
					ve.Replay = "reproduced"
				} else {
					ve.Replay = "not-reproduced"
					os.WriteFile(cexPath+".replay.log", []byte(out), 0o644)
				}
			}
			ev.Violations = append(ev.Violations, ve)
			switch {
			case isKnown && ve.Replay != "not-reproduced":
				fmt.Printf("KNOWN-FINDING: property=%s obligation=%s %s [%s at %s]\n", prop, o.ID, ve.Known, v.Msg, v.Where)
			case ve.Replay == "reproduced" || (ve.Replay == "skipped" && o.Opts["replay"] == "none"):
				fmt.Printf("VIOLATION property=%s replay=%s\n", prop, cexPath)
				fmt.Printf("  obligation=%s %s: %s at %s\n", o.ID, v.Kind, v.Msg, v.Where)
				nViol++
				verdict = "violated"
			default:
				fmt.Printf("INCONCLUSIVE property=%s obligation=%s: solver model did not reproduce natively (%s at %s) cex=%s\n", prop, o.ID, v.Msg, v.Where, cexPath)
				if verdict != "violated" {
					verdict = "inconclusive"
				}
			}
		}
		// translator validation: per-path witness inputs through the natively compiled harness
		if len(R.Witnesses) > 0 && !*noReplay && o.Opts["tv"] != "off" {
			n, mism, err := validateWitnesses(o, R.Witnesses, genDir, outDir)
			ev.TVSamples, ev.TVMismatches = n, mism
			if err != nil {
				fmt.Printf("   translator validation could not run: %v\n", err)
				ev.TVMismatches = append(ev.TVMismatches, "native run failed: "+err.Error())
			}
			if len(ev.TVMismatches) > 0 {
				for _, mm := range ev.TVMismatches {
					fmt.Printf("   TRANSLATOR-MISMATCH %s: %s\n", o.ID, mm)
				}
				if verdict == "holds-within-bounds" {
					verdict = "inconclusive"
				}
			}
			tvSamples += n
			tvMismatches += len(ev.TVMismatches)
		}
		ev.Verdict = verdict
		evs = append(evs, ev)
		if len(samples) < 12 {
			samples = append(samples, map[string]interface{}{"obligation": o.ID, "harness": ev.Harness, "paths": R.Paths, "example_paths": R.SamplePaths})
		}
		if os.Getenv("VERIF_FORKS") != "" {
			sx.QueryKinds.Range(func(k, v interface{}) bool {
				fmt.Printf("   queries %-16s %d\n", k, *(v.(*int64)))
				return true
			})
		}
		if os.Getenv("VERIF_DEBUG") != "" || os.Getenv("VERIF_FORKS") != "" {
			fmt.Printf("   merges: attempted=%d merged=%d aborted=%d\n", R.MergeStats[0], R.MergeStats[1], R.MergeStats[2])
		}
		fmt.Printf("%-8s %-22s paths=%d ok=%d infeasible=%d inconclusive=%d asserts=%d/%d(+%d const) sat/unsat/unk=%d/%d/%d solver=%.1fs wall=%.1fs\n",
			o.ID, verdict, R.Paths, R.OK, R.Infeasible, R.Inconclusive, R.AssertsDischarged, R.AssertsChecked, R.AssertsConst, R.Sat, R.Unsat, R.Unknown, R.SolverSecs, R.WallSecs)
		if len(R.ForkSites) > 0 {
			type kv struct {
				k string
				v int
			}
			var l []kv
			for k, v := range R.ForkSites {
				l = append(l, kv{k, v})
			}
			sort.Slice(l, func(i, j int) bool { return l[i].v > l[j].v })
			for i, x := range l {
				if i >= 25 && os.Getenv("VERIF_FORKS") != "all" {
					break
				}
				fmt.Printf("   forks %6d  %s\n", x.v, x.k)
			}
		}
		switch verdict {
		case "violated":
			exit = 1
		case "inconclusive", "vacuous":
			if exit == 0 {
				exit = 2
			}
			for r, n := range R.InconclusiveReasons {
				fmt.Printf("   inconclusive x%d: %s\n", n, r)
			}
			if R.Truncated {
				fmt.Printf("   path budget of %d exhausted: the exploration is incomplete (reduce the bound or raise paths=)\n", cfg.MaxPaths)
			}
			if R.Unknown > 0 {
				fmt.Printf("   %d solver answers were unknown/timeout\n", R.Unknown)
			}
			if len(ev.MissingCovers) > 0 {
				fmt.Printf("   missing vacuity witnesses: %v\n", ev.MissingCovers)
			}
		}
	}
	discharged := 0
	for _, e := range evs {
		if e.Verdict == "holds-within-bounds" {
			discharged++
		}
	}
	if !*noEvidence {
		var fl, sl, al []string
		for f := range funcs {
			if strings.Contains(f, "zz_verif") || strings.Contains(f, ".H_") || strings.Contains(f, ".v") && strings.Contains(f, "verif") {
				continue
			}
			fl = append(fl, f)
		}
		sort.Strings(fl)
		for s := range stubs {
			sl = append(sl, s)
		}
		sort.Strings(sl)
		for a := range assumes {
			al = append(al, "vAssume at "+a)
		}
		sort.Strings(al)
		repoFuncs := 0
		for _, f := range fl {
			if strings.Contains(f, "idena-network/idena-go") {
				repoFuncs++
			}
		}
		doc := map[string]interface{}{
			"property_id": prop, "tier": *tier, "seed": seed, "level": "other", "wall_s": round(time.Since(t0).Seconds()), "violations": nViol,
			"coverage": map[string]interface{}{
				"explanation": "Bounded symbolic execution of the real code: the functions listed under functions_encoded were executed from their go/ssa form (rebuilt from /repo's working tree in this run) with the harness inputs as SMT variables; every assertion and every implicit Go panic site on every explored path was decided by " + *solver + " (unsat = holds for all inputs within the bounds; sat = model replayed natively). Nothing is claimed outside the stated bounds, stubs and assumptions.",
				"obligations": len(evs), "discharged": discharged, "obligation_results": evs,
				"functions_encoded": fl, "functions_encoded_from_repo": repoFuncs, "stubs": sl,
				"queries": totalQ, "solver_s": round(solverS), "load_s": round(loadS),
				"package_inits_incomplete": keysOf(initIncomplete),
				"translator_validation": map[string]int{"witness_inputs_replayed_natively": tvSamples, "mismatches": tvMismatches},
				"samples": samples, "checker_cmd": "gosmt check " + prop + " --tier " + *tier,
				"trusted_base": []string{"go/ssa (x/tools v0.29.0)", "the SSA->SMT-LIB executor in /verif/engine", *solver, "stubs and assumptions listed here"},
			},
			"assumptions": append(al, sl...),
		}
		b, _ := json.MarshalIndent(doc, "", " ")
		os.MkdirAll(filepath.Join(verifDir, "evidence"), 0o755)
		if err := os.WriteFile(filepath.Join(verifDir, "evidence", prop+".json"), b, 0o644); err != nil {
			fatal(err)
		}
	}
	fmt.Printf("%s: %d/%d obligations hold within bounds; exit %d (%.1fs)\n", prop, discharged, len(evs), exit, time.Since(t0).Seconds())
	return exit
}

// usedSetsOf: harness package dir -> override sets used by its obligations.
func usedSetsOf(all []sx.Obligation) map[string]map[string]bool {
	r := map[string]map[string]bool{}
	for _, o := range all {
		for _, s := range strings.Split(o.Opts["use"], ",") {
			if s == "" {
				continue
			}
			if r[o.Pkg] == nil {
				r[o.Pkg] = map[string]bool{}
			}
			r[o.Pkg][s] = true
		}
	}
	return r
}

func keysOf(m map[string]bool) []string {
	r := []string{}
	for k := range m {
		r = append(r, k)
	}
	sort.Strings(r)
	return r
}

func round(f float64) float64 { return float64(int(f*100)) / 100 }

// nativeReplay runs the harness natively on the counterexample and reports whether an
// assertion failed (or a panic occurred) in the real compiled code.
func nativeReplay(cexPath, genDir string) (bool, string) {
	b, err := os.ReadFile(cexPath)
	if err != nil {
		return false, err.Error()
	}
	var doc struct {
		Package string `json:"package"`
		Harness string `json:"harness"`
		Use     string `json:"use"`
		Kind    string `json:"kind"`
		Msg     string `json:"msg"`
		Tier    string `json:"tier"`
	}
	json.Unmarshal(b, &doc)
	if doc.Tier == "" {
		doc.Tier = "quick"
	}
	if genDir == "" {
		genDir = filepath.Join(verifDir, "out", "gen-replay")
		all, err := sx.Discover(filepath.Join(verifDir, "harness"))
		if err != nil {
			return false, err.Error()
		}
		if err := sx.GenerateSupport(filepath.Join(verifDir, "harness"), genDir, all); err != nil {
			return false, err.Error()
		}
		if err := genTypes(repoDir, filepath.Join(verifDir, "harness"), genDir); err != nil {
			return false, err.Error()
		}
	}
	if nativeHooks == nil && doc.Use != "" {
		// stand-alone replay: hooks need the loaded program
		P, err := sx.Load(repoDir, []string{filepath.Join(verifDir, "harness"), genDir}, []string{doc.Package})
		if err != nil {
			return false, "HARNESS-ERROR: " + err.Error()
		}
		all, _ := sx.Discover(filepath.Join(verifDir, "harness"))
		nativeHooks, err = P.GenerateNativeHooks(repoDir, filepath.Join(filepath.Dir(cexPath), "nativehooks"), usedSetsOf(all))
		if err != nil {
			return false, err.Error()
		}
	}
	ovDir := filepath.Join(filepath.Dir(cexPath), "overlay")
	os.MkdirAll(ovDir, 0o755)
	ovJSON := filepath.Join(ovDir, "overlay.json")
	if err := sx.WriteOverlayJSON(repoDir, []string{filepath.Join(verifDir, "harness"), genDir}, ovJSON, nativeHooks); err != nil {
		return false, err.Error()
	}
	outJSON := cexPath + ".native.json"
	os.Remove(outJSON)
	cmd := exec.Command("go", "test", "-overlay", ovJSON, "-ldflags=-checklinkname=0", "-vet=off", "-count=1", "-run", "^TestVerifReplay$", "-timeout", "300s", "./"+doc.Package)
	cmd.Dir = repoDir
	cmd.Env = append(os.Environ(), "GOFLAGS=-mod=mod", "GOPROXY=off", "GOSUMDB=off", "GOTOOLCHAIN=local",
		"VERIF_HARNESS="+doc.Harness, "VERIF_INPUT="+cexPath, "VERIF_OUTPUT="+outJSON, "VERIF_USE="+doc.Use, "VERIF_TIER="+doc.Tier)
	out, _ := cmd.CombinedOutput()
	rb, err := os.ReadFile(outJSON)
	if err != nil {
		return false, "no native output: " + string(out)
	}
	var res struct {
		Failed []string `json:"failed"`
	}
	json.Unmarshal(rb, &res)
	for _, f := range res.Failed {
		// the SAME failure must show natively: the assertion with this message, or a panic
		if doc.Kind == "panic" && strings.HasPrefix(f, "PANIC:") {
			return true, string(out)
		}
		if doc.Kind != "panic" && f == doc.Msg {
			return true, string(out)
		}
	}
	return false, string(out) + fmt.Sprintf("\nnative failures: %v", res.Failed)
}

// validateWitnesses runs the harness natively on each witness input and compares assertion
// outcome, vacuity labels and observations with what the symbolic run predicted for that path.
func validateWitnesses(o sx.Obligation, ws []*sx.Witness, genDir, outDir string) (int, []string, error) {
	type item struct {
		Harness string            `json:"harness"`
		Use     string            `json:"use"`
		Model   map[string]string `json:"model"`
	}
	var items []item
	for _, w := range ws {
		items = append(items, item{o.Func, o.Opts["use"], w.Model})
	}
	batch := filepath.Join(outDir, o.ID+".witnesses.json")
	b, _ := json.MarshalIndent(items, "", " ")
	os.WriteFile(batch, b, 0o644)
	outPath := filepath.Join(outDir, o.ID+".witnesses.native.json")
	os.Remove(outPath)
	ovDir := filepath.Join(outDir, "overlay")
	os.MkdirAll(ovDir, 0o755)
	ovJSON := filepath.Join(ovDir, "overlay.json")
	if err := sx.WriteOverlayJSON(repoDir, []string{filepath.Join(verifDir, "harness"), genDir}, ovJSON, nativeHooks); err != nil {
		return 0, nil, err
	}
	cmd := exec.Command("go", "test", "-overlay", ovJSON, "-ldflags=-checklinkname=0", "-vet=off", "-count=1", "-run", "^TestVerifBatch$", "-timeout", "600s", "./"+o.Pkg)
	cmd.Dir = repoDir
	cmd.Env = append(os.Environ(), "GOFLAGS=-mod=mod", "GOPROXY=off", "GOSUMDB=off", "GOTOOLCHAIN=local", "VERIF_BATCH="+batch, "VERIF_BATCH_OUT="+outPath, "VERIF_TIER="+curTier)
	out, _ := cmd.CombinedOutput()
	rb, err := os.ReadFile(outPath)
	if err != nil {
		return 0, nil, fmt.Errorf("no native output: %s", tailStr(string(out), 1500))
	}
	var res []struct {
		Failed []string          `json:"failed"`
		Obs    map[string]string `json:"observations"`
		Covers []string          `json:"covers"`
	}
	if err := json.Unmarshal(rb, &res); err != nil {
		return 0, nil, err
	}
	var mism []string
	for i, w := range ws {
		if i >= len(res) {
			break
		}
		r := res[i]
		if len(r.Failed) > 0 {
			mism = append(mism, fmt.Sprintf("witness %d: native run failed %v on input %v (symbolic run discharged all assertions on this path)", i, r.Failed, w.Model))
			continue
		}
		if strings.Join(r.Covers, ",") != strings.Join(w.Covers, ",") {
			mism = append(mism, fmt.Sprintf("witness %d: native covers %v != symbolic covers %v on input %v", i, r.Covers, w.Covers, w.Model))
			continue
		}
		for k, v := range w.Obs {
			if r.Obs[k] != v {
				mism = append(mism, fmt.Sprintf("witness %d: observation %s native %s != symbolic %s on input %v", i, k, r.Obs[k], v, w.Model))
				break
			}
		}
	}
	return len(res), mism, nil
}

func tailStr(s string, n int) string {
	if len(s) > n {
		return s[len(s)-n:]
	}
	return s
}

func cmdReplay(args []string) int {
	if len(args) < 1 {
		fmt.Fprintln(os.Stderr, "usage: gosmt replay <cex.json>")
		return 2
	}
	ok, out := nativeReplay(args[0], "")
	fmt.Println(out)
	if ok {
		fmt.Println("REPRODUCED: the real code fails on this input")
		return 1
	}
	fmt.Println("NOT REPRODUCED")
	return 0
}

func cmdSelftest(args []string) int {
	// the solvers answer, and agree on a tiny query
	for _, s := range []string{"z3"} {
		sv, err := sx.NewSolver(s, 5000, "")
		if err != nil {
			fmt.Println("selftest: cannot start", s, err)
			return 2
		}
		sv.Send("(declare-fun x () (_ BitVec 8))")
		sv.Send("(assert (= (bvadd x #x01) #x00))")
		if sv.Check() != sx.Sat {
			fmt.Println("selftest: unexpected answer from", s)
			return 2
		}
		sv.Close()
	}
	fmt.Println("selftest ok")
	return 0
}


var genNotes []string

// curTier: the tier of the running check (passed to every native run so that vThorough() agrees)
var curTier = "quick"

func genTypes(repoDir, harnessDir, genDir string) error {
	req, err := sx.DiscoverGen(harnessDir)
	if err != nil {
		return err
	}
	genNotes, err = sx.GenerateTypeSupport(repoDir, harnessDir, genDir, req)
	return err
}
