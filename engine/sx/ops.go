package sx

import (
	"fmt"
	"go/token"
	"go/types"
	"unicode/utf8"

	"golang.org/x/tools/go/ssa"
)

// ---- equality ----

func (p *Path) eqValue(a, b Value) *Term {
	tb := p.tb
	switch x := a.(type) {
	case nil:
		return BoolT(b == nil)
	case *Term:
		return tb.Eq(x, b.(*Term))
	case *StructV:
		y := b.(*StructV)
		r := tTrue
		for i := range x.F {
			r = tb.And(r, p.eqValue(x.F[i], y.F[i]))
			if r.c && r.u == 0 {
				return r
			}
		}
		return r
	case *ArrayV:
		y := b.(*ArrayV)
		r := tTrue
		for i := range x.E {
			r = tb.And(r, p.eqValue(x.E[i], y.E[i]))
			if r.c && r.u == 0 {
				return r
			}
		}
		return r
	case PtrV:
		y := b.(PtrV)
		return p.ptrEqTerm(x, y)
	case StrV:
		y := b.(StrV)
		if len(x.B) != len(y.B) {
			return tFalse
		}
		r := tTrue
		for i := range x.B {
			r = tb.And(r, tb.Eq(x.B[i], y.B[i]))
			if r.c && r.u == 0 {
				return r
			}
		}
		return r
	case IfaceV:
		y := b.(IfaceV)
		if x.T == nil || y.T == nil {
			return BoolT(x.T == nil && y.T == nil)
		}
		if !types.Identical(x.T, y.T) {
			return tFalse
		}
		return p.eqValue(x.V, y.V)
	case *MapV:
		y := b.(*MapV)
		return BoolT(x == y) // only nil comparisons are legal in Go
	case SliceV:
		y := b.(SliceV)
		return BoolT(x.O == y.O && x.O == nil)
	case *FuncV:
		y := b.(*FuncV)
		// only comparisons with nil are legal in Go
		return tb.And(funcNil(x), funcNil(y))
	case ChanV:
		return BoolT(x.ID == b.(ChanV).ID)
	case OpaqueV:
		y, ok := b.(OpaqueV)
		return BoolT(ok && x.ID == y.ID && x.Kind == y.Kind)
	case BigV:
		return tb.Eq(x.T, b.(BigV).T)
	case TupleV:
		y := b.(TupleV)
		r := tTrue
		for i := range x {
			r = tb.And(r, p.eqValue(x[i], y[i]))
		}
		return r
	}
	panic(fmt.Sprintf("engine: eqValue %T", a))
}

func funcNil(f *FuncV) *Term {
	if f == nil {
		return tTrue
	}
	if f.Nil != nil {
		return f.Nil
	}
	return tFalse
}

func nilTerm(x PtrV) *Term {
	if x.O == nil {
		return tTrue
	}
	if x.Nil != nil {
		return x.Nil
	}
	return tFalse
}

func (p *Path) ptrEqTerm(x, y PtrV) *Term {
	tb := p.tb
	xn, yn := nilTerm(x), nilTerm(y)
	same := tFalse
	if x.O != nil && y.O != nil && ptrEq(PtrV{O: x.O, Path: x.Path}, PtrV{O: y.O, Path: y.Path}) {
		same = tTrue
	}
	return tb.Or(tb.And(xn, yn), tb.And(tb.And(tb.Not(xn), tb.Not(yn)), same))
}

// ---- binary operators ----

func (p *Path) shiftCount(n *Term, w int) *Term {
	// Go: shift counts >= width give 0 / sign fill; SMT shifts do the same when the count
	// has the operand's width. Saturate a wider/narrower count into width w.
	if n.S.W == w {
		return n
	}
	if n.S.W < w {
		return p.tb.Resize(n, w, false)
	}
	// wider count: saturate at w
	big := p.tb.BVLe(BVConst(uint64(w), n.S.W), n, false)
	return p.tb.Ite(big, BVConst(uint64(w), w), p.tb.Resize(n, w, false))
}

// triCmp folds "tri OP const" for a three-way comparison result.
func (p *Path) triCmp(op token.Token, t *Term, c int64) (*Term, bool) {
	tb := p.tb
	lt, gt := t.triLt, t.triGt
	eq := tb.And(tb.Not(lt), tb.Not(gt))
	val := func(v int64) *Term { // t == v
		switch v {
		case -1:
			return lt
		case 0:
			return eq
		case 1:
			return gt
		}
		return tFalse
	}
	switch op {
	case token.EQL:
		return val(c), true
	case token.NEQ:
		return tb.Not(val(c)), true
	case token.LSS: // t < c
		switch {
		case c <= -1:
			return tFalse, true
		case c == 0:
			return lt, true
		case c == 1:
			return tb.Not(gt), true
		}
		return tTrue, true
	case token.LEQ:
		switch {
		case c < -1:
			return tFalse, true
		case c == -1:
			return lt, true
		case c == 0:
			return tb.Not(gt), true
		}
		return tTrue, true
	case token.GTR:
		switch {
		case c >= 1:
			return tFalse, true
		case c == 0:
			return gt, true
		case c == -1:
			return tb.Not(lt), true
		}
		return tTrue, true
	case token.GEQ:
		switch {
		case c > 1:
			return tFalse, true
		case c == 1:
			return gt, true
		case c == 0:
			return tb.Not(lt), true
		}
		return tTrue, true
	}
	return nil, false
}

func flipCmp(op token.Token) token.Token {
	switch op {
	case token.LSS:
		return token.GTR
	case token.LEQ:
		return token.GEQ
	case token.GTR:
		return token.LSS
	case token.GEQ:
		return token.LEQ
	}
	return op
}

func (p *Path) binop(fr *frame, op token.Token, xt types.Type, x, y Value, yt types.Type, pos token.Pos) Value {
	tb := p.tb
	if a, ok := x.(*Term); ok {
		if b, ok := y.(*Term); ok && a.S.K == KBV && a.S.W == 64 {
			if a.triLt != nil && b.c {
				if r, ok := p.triCmp(op, a, sext64(b.u, 64)); ok {
					return r
				}
			}
			if b.triLt != nil && a.c {
				if r, ok := p.triCmp(flipCmp(op), b, sext64(a.u, 64)); ok {
					return r
				}
			}
		}
	}
	switch op {
	case token.EQL:
		return p.eqValue(x, y)
	case token.NEQ:
		return tb.Not(p.eqValue(x, y))
	}
	// strings
	if xs, ok := x.(StrV); ok {
		ys := y.(StrV)
		switch op {
		case token.ADD:
			b := make([]*Term, 0, len(xs.B)+len(ys.B))
			b = append(b, xs.B...)
			b = append(b, ys.B...)
			return StrV{b}
		case token.LSS, token.LEQ, token.GTR, token.GEQ:
			lt := p.strLess(xs, ys)
			switch op {
			case token.LSS:
				return lt
			case token.GEQ:
				return tb.Not(lt)
			case token.GTR:
				return p.strLess(ys, xs)
			case token.LEQ:
				return tb.Not(p.strLess(ys, xs))
			}
		}
		panic("engine: string binop " + op.String())
	}
	a := x.(*Term)
	b := y.(*Term)
	if a.S.K == KFP {
		switch op {
		case token.ADD:
			return tb.FPArith("fp.add", a, b)
		case token.SUB:
			return tb.FPArith("fp.sub", a, b)
		case token.MUL:
			return tb.FPArith("fp.mul", a, b)
		case token.QUO:
			return tb.FPArith("fp.div", a, b)
		case token.LSS:
			return tb.FPCmp("fp.lt", a, b)
		case token.LEQ:
			return tb.FPCmp("fp.leq", a, b)
		case token.GTR:
			return tb.FPCmp("fp.gt", a, b)
		case token.GEQ:
			return tb.FPCmp("fp.geq", a, b)
		}
		panic("engine: float binop " + op.String())
	}
	if a.S.K == KBool {
		switch op {
		case token.AND, token.LAND:
			return tb.And(a, b)
		case token.OR, token.LOR:
			return tb.Or(a, b)
		}
		panic("engine: bool binop " + op.String())
	}
	signed := isSigned(xt)
	w := a.S.W
	switch op {
	case token.ADD:
		return tb.BVAdd(a, b)
	case token.SUB:
		return tb.BVSub(a, b)
	case token.MUL:
		// a symbolic factor times a large constant makes 64-bit multiplier/divider circuits the
		// solver cannot handle: case-split the symbolic factor over its feasible values instead.
		if w == 64 && !p.E.Cfg.NoBigMulSplit {
			if a.c && !b.c && bigConst(a) {
				b = BVConst(uint64(p.concretize(b, signed, fr, pos)), w)
			} else if b.c && !a.c && bigConst(b) {
				a = BVConst(uint64(p.concretize(a, signed, fr, pos)), w)
			}
		}
		return tb.BVMul(a, b)
	case token.QUO, token.REM:
		z := tb.Eq(b, BVConst(0, w))
		if p.forkBool(z, fr, pos) {
			p.goPanic(fr, pos, "integer divide by zero")
		}
		if op == token.QUO {
			return tb.BVDiv(a, b, signed)
		}
		return tb.BVRem(a, b, signed)
	case token.AND:
		return tb.BVAnd(a, b)
	case token.OR:
		return tb.BVOr(a, b)
	case token.XOR:
		return tb.BVXor(a, b)
	case token.AND_NOT:
		return tb.BVAnd(a, tb.BVNot(b))
	case token.SHL:
		return tb.BVShl(a, p.shiftCount(b, w))
	case token.SHR:
		return tb.BVShr(a, p.shiftCount(b, w), signed)
	case token.LSS:
		return tb.BVLt(a, b, signed)
	case token.LEQ:
		return tb.BVLe(a, b, signed)
	case token.GTR:
		return tb.BVLt(b, a, signed)
	case token.GEQ:
		return tb.BVLe(b, a, signed)
	}
	panic("engine: binop " + op.String())
}

func bigConst(t *Term) bool {
	v := sext64(t.u, t.S.W)
	if v < 0 {
		v = -v
	}
	return v >= 1<<24
}

// strLess: lexicographic byte order (Go string comparison).
func (p *Path) strLess(a, b StrV) *Term {
	tb := p.tb
	n := len(a.B)
	if len(b.B) < n {
		n = len(b.B)
	}
	// result if all first n bytes equal
	r := BoolT(len(a.B) < len(b.B))
	for i := n - 1; i >= 0; i-- {
		lt := tb.BVLt(a.B[i], b.B[i], false)
		eq := tb.Eq(a.B[i], b.B[i])
		r = tb.Or(lt, tb.And(eq, r))
	}
	return r
}

// bytesCompare returns a BV64 term in {-1,0,1}.
func (p *Path) bytesCompare(a, b []*Term) *Term {
	tb := p.tb
	lt := p.strLess(StrV{a}, StrV{b})
	gt := p.strLess(StrV{b}, StrV{a})
	return tb.Ite(lt, BVConst(^uint64(0), 64), tb.Ite(gt, BVConst(1, 64), BVConst(0, 64)))
}

// ---- conversions ----

func (p *Path) convert(fr *frame, from, to types.Type, x Value, pos token.Pos) Value {
	tb := p.tb
	uf, ut := from.Underlying(), to.Underlying()
	switch ut := ut.(type) {
	case *types.Basic:
		if ut.Kind() == types.String {
			switch uf := uf.(type) {
			case *types.Basic:
				if uf.Kind() == types.String {
					return x
				}
				// integer -> string (rune)
				t := x.(*Term)
				if !t.c {
					p.unsupported(fr, pos, "string(symbolic rune)")
				}
				return StrConst(string(rune(sext64(t.u, t.S.W))))
			case *types.Slice:
				s := x.(SliceV)
				if eb, ok := uf.Elem().Underlying().(*types.Basic); ok && eb.Kind() == types.Uint8 {
					b := make([]*Term, s.Len)
					for i := 0; i < s.Len; i++ {
						b[i] = p.sliceGet(s, i).(*Term)
					}
					return StrV{b}
				}
				// []rune
				rs := make([]rune, s.Len)
				for i := 0; i < s.Len; i++ {
					t := p.sliceGet(s, i).(*Term)
					if !t.c {
						p.unsupported(fr, pos, "string([]rune symbolic)")
					}
					rs[i] = rune(t.u)
				}
				return StrConst(string(rs))
			}
		}
		if ut.Kind() == types.UnsafePointer {
			if _, ok := uf.(*types.Pointer); ok {
				return x
			}
			if b, ok := uf.(*types.Basic); ok && b.Kind() == types.UnsafePointer {
				return x
			}
			p.unsupported(fr, pos, "conversion to unsafe.Pointer")
		}
		st, tsigned, ok := basicSort(ut)
		if !ok {
			p.unsupported(fr, pos, fmt.Sprintf("conversion to %v", to))
		}
		fb, isB := uf.(*types.Basic)
		if !isB {
			p.unsupported(fr, pos, fmt.Sprintf("conversion %v -> %v", from, to))
		}
		sf, fsigned, ok := basicSort(fb)
		if !ok {
			p.unsupported(fr, pos, fmt.Sprintf("conversion %v -> %v", from, to))
		}
		t := x.(*Term)
		switch {
		case sf.K == KBV && st.K == KBV:
			return tb.Resize(t, st.W, fsigned)
		case sf.K == KBV && st.K == KFP:
			return tb.BV2FP(t, fsigned, st.W)
		case sf.K == KFP && st.K == KBV:
			return tb.FP2BV(t, tsigned, st.W)
		case sf.K == KFP && st.K == KFP:
			return tb.FPResize(t, st.W)
		case sf.K == KBool && st.K == KBool:
			return t
		}
	case *types.Slice:
		// string -> []byte / []rune
		if s, ok := x.(StrV); ok {
			if eb, ok := ut.Elem().Underlying().(*types.Basic); ok && eb.Kind() == types.Uint8 {
				arr := make([]Value, len(s.B))
				for i, b := range s.B {
					arr[i] = b
				}
				return SliceV{O: p.newObj(&ArrayV{E: arr, Mut: true}, nil, "[]byte(string)"), Len: len(arr), Cap: len(arr)}
			}
			cs, ok := s.Concrete()
			if !ok {
				p.unsupported(fr, pos, "[]rune(symbolic string)")
			}
			rs := []rune(cs)
			arr := make([]Value, len(rs))
			for i, r := range rs {
				arr[i] = BVConst(uint64(r), 32)
			}
			return SliceV{O: p.newObj(&ArrayV{E: arr, Mut: true}, nil, "[]rune(string)"), Len: len(arr), Cap: len(arr)}
		}
		return x
	case *types.Pointer:
		// unsafe.Pointer -> *T
		if pv, ok := x.(PtrV); ok {
			return pv
		}
	}
	p.unsupported(fr, pos, fmt.Sprintf("conversion %v -> %v", from, to))
	return nil
}

// ---- builtins ----

func (p *Path) builtin(fr *frame, b *ssa.Builtin, call *ssa.CallCommon, args []Value, pos token.Pos) Value {
	switch b.Name() {
	case "len":
		switch x := args[0].(type) {
		case StrV:
			return BVConst(uint64(len(x.B)), 64)
		case SliceV:
			return BVConst(uint64(x.Len), 64)
		case *MapV:
			if x == nil {
				return BVConst(0, 64)
			}
			n := BVConst(0, 64)
			cnt := 0
			for _, e := range x.E {
				if e.Cond == nil {
					cnt++
				} else {
					n = p.tb.BVAdd(n, p.tb.Ite(e.Cond, BVConst(1, 64), BVConst(0, 64)))
				}
			}
			return p.tb.BVAdd(n, BVConst(uint64(cnt), 64))
		case *ArrayV:
			return BVConst(uint64(len(x.E)), 64)
		case PtrV:
			n := call.Args[0].Type().Underlying().(*types.Pointer).Elem().Underlying().(*types.Array).Len()
			return BVConst(uint64(n), 64)
		case ChanV:
			if st := p.chans[x.ID]; st != nil {
				return BVConst(uint64(len(st.buf)), 64)
			}
			return BVConst(0, 64)
		}
	case "cap":
		switch x := args[0].(type) {
		case SliceV:
			return BVConst(uint64(x.Cap), 64)
		case *ArrayV:
			return BVConst(uint64(len(x.E)), 64)
		case PtrV:
			n := call.Args[0].Type().Underlying().(*types.Pointer).Elem().Underlying().(*types.Array).Len()
			return BVConst(uint64(n), 64)
		case ChanV:
			return BVConst(0, 64)
		}
	case "append":
		s := args[0].(SliceV)
		var add []Value
		switch y := args[1].(type) {
		case SliceV:
			for i := 0; i < y.Len; i++ {
				add = append(add, p.sliceGet(y, i))
			}
		case StrV:
			for _, t := range y.B {
				add = append(add, t)
			}
		}
		if len(add) == 0 {
			return s
		}
		return p.appendVals(s, add)
	case "copy":
		dst := args[0].(SliceV)
		var src []Value
		switch y := args[1].(type) {
		case SliceV:
			for i := 0; i < y.Len; i++ {
				src = append(src, p.sliceGet(y, i))
			}
		case StrV:
			for _, t := range y.B {
				src = append(src, t)
			}
		}
		n := dst.Len
		if len(src) < n {
			n = len(src)
		}
		for i := 0; i < n; i++ {
			p.sliceSet(dst, i, src[i])
		}
		return BVConst(uint64(n), 64)
	case "delete":
		m := args[0].(*MapV)
		if m != nil {
			p.mapDelete(fr, m, args[1], pos)
		}
		return nil
	case "print", "println":
		return nil
	case "recover":
		return p.doRecover(fr)
	case "ssa:wrapnilchk":
		if ptr, ok := args[0].(PtrV); ok && p.rp(fr, ptr, pos).IsNil() {
			p.goPanic(fr, pos, "value method called using nil pointer")
		}
		return args[0]
	case "min", "max":
		r := args[0].(*Term)
		signed := isSigned(call.Args[0].Type())
		for _, a := range args[1:] {
			t := a.(*Term)
			var c *Term
			if r.S.K == KFP {
				p.unsupported(fr, pos, "min/max on floats")
			}
			if b.Name() == "min" {
				c = p.tb.BVLt(t, r, signed)
			} else {
				c = p.tb.BVLt(r, t, signed)
			}
			r = p.tb.Ite(c, t, r)
		}
		return r
	case "clear":
		switch x := args[0].(type) {
		case *MapV:
			if x != nil {
				p.journalMap(x)
				x.E = nil
			}
		case SliceV:
			et := call.Args[0].Type().Underlying().(*types.Slice).Elem()
			for i := 0; i < x.Len; i++ {
				p.sliceSet(x, i, Zero(et))
			}
		}
		return nil
	case "close":
		return nil
	}
	p.unsupported(fr, pos, "builtin "+b.Name())
	return nil
}

func (p *Path) appendVals(s SliceV, add []Value) SliceV {
	need := s.Len + len(add)
	if !s.IsNil() && need <= s.Cap {
		r := SliceV{O: s.O, Off: s.Off, Len: need, Cap: s.Cap}
		for i, v := range add {
			p.sliceSet(r, s.Len+i, v)
		}
		return r
	}
	ncap := need
	if s.Cap*2 >= need && s.Cap > 0 {
		ncap = s.Cap * 2
	}
	arr := make([]Value, ncap)
	for i := 0; i < s.Len; i++ {
		arr[i] = p.sliceGet(s, i)
	}
	copy(arr[s.Len:], add)
	if ncap > need {
		// zero fill: element type unknown here; use zero of the first available element
		var z Value
		if len(add) > 0 {
			z = zeroLike(add[0])
		}
		for i := need; i < ncap; i++ {
			arr[i] = z
		}
	}
	return SliceV{O: p.newObj(&ArrayV{E: arr, Mut: true}, nil, "append"), Off: 0, Len: need, Cap: ncap}
}

func zeroLike(v Value) Value {
	switch a := v.(type) {
	case *Term:
		return zeroTerm(a.S)
	case *StructV:
		f := make([]Value, len(a.F))
		for i := range f {
			f[i] = zeroLike(a.F[i])
		}
		return &StructV{f}
	case *ArrayV:
		e := make([]Value, len(a.E))
		for i := range e {
			e[i] = zeroLike(a.E[i])
		}
		return &ArrayV{E: e}
	case PtrV:
		return PtrV{}
	case SliceV:
		return SliceV{}
	case StrV:
		return StrV{}
	case *MapV:
		return (*MapV)(nil)
	case IfaceV:
		return IfaceV{}
	case *FuncV:
		return (*FuncV)(nil)
	case BigV:
		return BigV{IntConst64(0)}
	case ChanV:
		return ChanV{}
	}
	return nil
}

func (p *Path) doRecover(fr *frame) Value {
	// recover() is called by a deferred function; its caller frame is the panicking one.
	c := fr.caller
	if c != nil && c.panicking {
		c.panicking = false
		gp := c.panicV.(goPanic)
		c.panicV = nil
		p.recovered = append(p.recovered, gp.Msg+" @ "+gp.Where)
		if iv, ok := gp.V.(IfaceV); ok {
			return iv
		}
		return IfaceV{T: p.E.opaqueErrT, V: OpaqueV{Kind: "panic", Msg: StrConst(gp.Msg)}}
	}
	return IfaceV{}
}

// ---- maps ----

// mapFind returns the index of the entry whose key equals k, or -1 (forking on symbolic keys).
func (p *Path) mapFind(fr *frame, m *MapV, k Value, pos token.Pos) int {
	// first pass: definite hit?
	var conds []*Term
	for i := range m.E {
		c := p.eqValue(m.E[i].K, k)
		if m.E[i].Cond != nil {
			c = p.tb.And(c, m.E[i].Cond)
		}
		if c.c && c.u != 0 {
			// a definite hit can only be preceded by definite misses or symbolic maybes;
			// keys in a map are pairwise distinct under the path condition, so at most one
			// entry can match: take it unless an earlier symbolic entry could also match,
			// which the distinctness invariant rules out.
			return i
		}
		conds = append(conds, c)
	}
	for i, c := range conds {
		if c.c {
			continue
		}
		if p.forkBool(c, fr, pos) {
			return i
		}
	}
	return -1
}

func (p *Path) mapSet(fr *frame, m *MapV, k, v Value, pos token.Pos) {
	i := p.mapFind(fr, m, k, pos)
	p.journalMap(m)
	if i >= 0 {
		ne := append([]MapEntry(nil), m.E...)
		ne[i].V = v
		ne[i].Cond = nil // the path condition now implies the entry exists
		m.E = ne
		return
	}
	ne := append([]MapEntry(nil), m.E...)
	// a conditional entry with this very key that does not exist on this path (mapFind just decided so) is
	// reused: a map never holds two entries with one key
	for j := range ne {
		if ne[j].Cond != nil {
			if c := p.eqValue(ne[j].K, k); c.c && c.u != 0 {
				ne[j].V, ne[j].Cond = v, nil
				m.E = ne
				return
			}
		}
	}
	m.E = append(ne, MapEntry{K: k, V: v})
}

func (p *Path) mapDelete(fr *frame, m *MapV, k Value, pos token.Pos) {
	i := p.mapFind(fr, m, k, pos)
	if i >= 0 {
		p.journalMap(m)
		ne := make([]MapEntry, 0, len(m.E)-1)
		ne = append(ne, m.E[:i]...)
		ne = append(ne, m.E[i+1:]...)
		m.E = ne
	}
}

func (p *Path) lookup(fr *frame, in *ssa.Lookup) Value {
	x := fr.get(in.X)
	if s, ok := x.(StrV); ok {
		idx := fr.get(in.Index).(*Term)
		i := p.indexTerm(fr, idx, in.Index.Type(), len(s.B), in.Pos())
		return s.B[i]
	}
	m := x.(*MapV)
	vt := in.X.Type().Underlying().(*types.Map).Elem()
	var res Value
	found := false
	if m != nil {
		i := p.mapFind(fr, m, fr.get(in.Index), in.Pos())
		if i >= 0 {
			res = m.E[i].V
			found = true
		}
	}
	if !found {
		res = Zero(vt)
	}
	if in.CommaOk {
		return TupleV{res, BoolT(found)}
	}
	return res
}

// ---- range ----

type iterV struct {
	m    *MapV
	keys []Value // snapshot, in iteration order
	pos  int
	str  []rune
	strB []int // byte offsets
	isStr bool
	symStr []*Term
}

func (p *Path) rangeIter(fr *frame, x Value, t types.Type, pos token.Pos) Value {
	switch a := x.(type) {
	case StrV:
		s, ok := a.Concrete()
		if !ok {
			// symbolic bytes: ASCII only (a byte >= 0x80 would start a multi-byte rune)
			it := &iterV{isStr: true, symStr: a.B}
			for i, b := range a.B {
				if !p.forkBool(p.tb.BVLt(b, byteConst(0x80), false), fr, pos) {
					p.unsupported(fr, pos, "range over a symbolic string containing non-ASCII bytes")
				}
				it.strB = append(it.strB, i)
			}
			return it
		}
		it := &iterV{isStr: true}
		for i, r := range s {
			it.str = append(it.str, r)
			it.strB = append(it.strB, i)
		}
		_ = utf8.RuneLen
		return it
	case *MapV:
		it := &iterV{m: a}
		if a == nil {
			return it
		}
		n := len(a.E)
		order := make([]int, n)
		for i := range order {
			order[i] = i
		}
		if p.mapOrderNondet && n > 1 {
			if n > p.E.Cfg.MaxPermute {
				p.abort("inconclusive", fmt.Sprintf("map of %d entries ranged in order-nondeterminism mode (limit %d) at %s", n, p.E.Cfg.MaxPermute, p.where(fr, pos)))
			}
			// choose a permutation: n! alternatives via successive choices
			rem := append([]int(nil), order...)
			order = order[:0]
			for len(rem) > 1 {
				c := p.choose(len(rem), "maporder")
				order = append(order, rem[c])
				rem = append(rem[:c:c], rem[c+1:]...)
			}
			order = append(order, rem[0])
		}
		for _, i := range order {
			it.keys = append(it.keys, a.E[i].K)
		}
		return it
	}
	panic(fmt.Sprintf("engine: range over %T", x))
}

func (p *Path) nextIter(fr *frame, itv Value, in *ssa.Next) Value {
	it := itv.(*iterV)
	tt := in.Type().(*types.Tuple)
	if it.isStr && it.symStr != nil {
		if it.pos >= len(it.symStr) {
			return TupleV{tFalse, BVConst(0, 64), BVConst(0, 32)}
		}
		r := TupleV{tTrue, BVConst(uint64(it.pos), 64), p.tb.Resize(it.symStr[it.pos], 32, false)}
		it.pos++
		return r
	}
	if it.isStr {
		if it.pos >= len(it.str) {
			return TupleV{tFalse, BVConst(0, 64), BVConst(0, 32)}
		}
		r := TupleV{tTrue, BVConst(uint64(it.strB[it.pos]), 64), BVConst(uint64(it.str[it.pos]), 32)}
		it.pos++
		return r
	}
	for it.pos < len(it.keys) {
		k := it.keys[it.pos]
		it.pos++
		// entry still present? keys snapshot are the same Value objects: compare structurally
		// (definite equality expected since the key value is shared).
		for i := range it.m.E {
			c := p.eqValue(it.m.E[i].K, k)
			if c.c && c.u != 0 {
				if cd := it.m.E[i].Cond; cd != nil && !p.forkBool(cd, fr, in.Pos()) {
					continue // this entry does not exist on this path (another entry may carry the key)
				}
				return TupleV{tTrue, k, it.m.E[i].V}
			}
		}
		// not definitely present: it was deleted (or never definite) -> skip
	}
	var zk, zv Value
	if tt.At(1).Type() != nil {
		zk = zeroOrNil(tt.At(1).Type())
	}
	zv = zeroOrNil(tt.At(2).Type())
	return TupleV{tFalse, zk, zv}
}

func zeroOrNil(t types.Type) Value {
	if t == nil {
		return nil
	}
	if b, ok := t.(*types.Basic); ok && b.Kind() == types.Invalid {
		return nil
	}
	return Zero(t)
}
