package sx

import (
	"fmt"
	"go/token"
	"go/types"
	"math"
	"math/big"
	"strconv"
	"strings"

	"golang.org/x/tools/go/ssa"
)

var apiIntrinsics map[string]intrinsicFn

// API functions without side effects on the exploration (allowed inside merge attempts)
var apiPure = map[string]bool{"vBool": true, "vU8": true, "vU16": true, "vU32": true, "vU64": true, "vI64": true, "vI32": true, "vInt": true,
	"vBig": true, "vBytes": true, "vAssume": true, "vConcretize": true, "vF32": true, "vF64": true, "vSymbolic": true, "vThorough": true, "vAnd": true, "vOr": true, "vImplies": true, "vIte64": true,
	"vBigLe": true, "vBigLt": true, "vBigEq": true, "vBigOr0": true, "vNilIf": true, "vEq": true, "vProtoSame": true, "vLockOrderConsistent": true}

// API functions that must see maybe-nil pointers unresolved
var apiKeepsSymbolicNil = map[string]bool{"vNilIf": true, "vEq": true, "vBigOr0": true}

func constName(p *Path, fr *frame, v Value, pos token.Pos) string {
	s, ok := v.(StrV).Concrete()
	if !ok {
		p.abort("inconclusive", "HARNESS-ERROR: nondet name is not a constant string at "+p.where(fr, pos))
	}
	return s
}

// nondet creates (or, in concolic mode, looks up) a scalar input.
func (p *Path) nondet(name, kind string, s Sort) *Term {
	uname := name
	if n, ok := p.ndNames[name]; ok {
		p.ndNames[name] = n + 1
		uname = fmt.Sprintf("%s#%d", name, n+1)
	} else {
		p.ndNames[name] = 0
	}
	if p.E.Cfg.Concrete != nil {
		t := parseConcrete(p.E.Cfg.Concrete[uname], kind, s)
		p.nondets = append(p.nondets, NondetRec{uname, kind, []*Term{t}})
		return t
	}
	t := p.decl(uname, s)
	p.nondets = append(p.nondets, NondetRec{uname, kind, []*Term{t}})
	return t
}

func parseConcrete(v string, kind string, s Sort) *Term {
	if i := strings.Index(v, ":"); i >= 0 {
		v = v[i+1:]
	}
	switch s.K {
	case KBool:
		return BoolT(v == "true" || v == "1")
	case KBV:
		if v == "" {
			return BVConst(0, s.W)
		}
		if strings.HasPrefix(v, "-") {
			n, _ := strconv.ParseInt(v, 10, 64)
			return BVConst(uint64(n), s.W)
		}
		n, _ := strconv.ParseUint(v, 10, 64)
		return BVConst(n, s.W)
	case KInt:
		b, ok := new(big.Int).SetString(v, 10)
		if !ok {
			b = big.NewInt(0)
		}
		return IntConst(b)
	case KFP:
		if v == "" {
			return FPConst(0, s.W)
		}
		// stored as raw IEEE bits (decimal)
		n, err := strconv.ParseUint(v, 10, 64)
		if err != nil {
			f, _ := strconv.ParseFloat(v, 64)
			return FPConst(f, s.W)
		}
		if s.W == 32 {
			return FPConst(float64(math.Float32frombits(uint32(n))), 32)
		}
		return FPConst(math.Float64frombits(n), 64)
	}
	panic("parseConcrete")
}

// parseModelValue turns a solver model value into the decimal text used in cex files.
func parseModelValue(v string, s Sort) string {
	v = strings.TrimSpace(v)
	switch s.K {
	case KBool:
		return v
	case KBV:
		if strings.HasPrefix(v, "#x") {
			n, _ := strconv.ParseUint(v[2:], 16, 64)
			return fmt.Sprint(n)
		}
		if strings.HasPrefix(v, "#b") {
			n, _ := strconv.ParseUint(v[2:], 2, 64)
			return fmt.Sprint(n)
		}
		if strings.HasPrefix(v, "(_ bv") {
			f := strings.Fields(v[5:])
			return f[0]
		}
	case KInt:
		v = strings.ReplaceAll(v, "(", "")
		v = strings.ReplaceAll(v, ")", "")
		v = strings.ReplaceAll(v, " ", "")
		return v
	case KFP:
		// (fp #b0 #b01111111 #b000...) or (_ +zero 8 24) etc.; emit raw IEEE bits
		eb, sb := 8, 23
		if s.W == 64 {
			eb, sb = 11, 52
		}
		if strings.HasPrefix(v, "(fp ") {
			f := strings.Fields(strings.TrimSuffix(v[4:], ")"))
			if len(f) == 3 {
				bits := uint64(0)
				for _, part := range f {
					var n uint64
					var w int
					if strings.HasPrefix(part, "#b") {
						n, _ = strconv.ParseUint(part[2:], 2, 64)
						w = len(part) - 2
					} else if strings.HasPrefix(part, "#x") {
						n, _ = strconv.ParseUint(part[2:], 16, 64)
						w = 4 * (len(part) - 2)
					}
					bits = bits<<uint(w) | n
				}
				return fmt.Sprint(bits)
			}
		}
		if strings.HasPrefix(v, "(_ ") {
			f := strings.Fields(v[3:])
			var bits uint64
			expAll := (uint64(1)<<uint(eb) - 1) << uint(sb)
			switch f[0] {
			case "+zero":
				bits = 0
			case "-zero":
				bits = 1 << uint(eb+sb)
			case "+oo":
				bits = expAll
			case "-oo":
				bits = expAll | 1<<uint(eb+sb)
			case "NaN":
				bits = expAll | 1<<uint(sb-1)
			}
			return fmt.Sprint(bits)
		}
	}
	return v
}

func init() {
	A := map[string]intrinsicFn{}
	apiIntrinsics = A
	A["vThorough"] = func(p *Path, fr *frame, fn *ssa.Function, args []Value, pos token.Pos) Value { return BoolT(p.E.Cfg.Thorough) }
	A["vSymbolic"] = func(p *Path, fr *frame, fn *ssa.Function, args []Value, pos token.Pos) Value { return tTrue }
	scalar := func(kind string, s Sort) intrinsicFn {
		return func(p *Path, fr *frame, fn *ssa.Function, args []Value, pos token.Pos) Value {
			return p.nondet(constName(p, fr, args[0], pos), kind, s)
		}
	}
	A["vBool"] = scalar("bool", SBool)
	A["vU8"] = scalar("u8", BV(8))
	A["vU16"] = scalar("u16", BV(16))
	A["vU32"] = scalar("u32", BV(32))
	A["vU64"] = scalar("u64", BV(64))
	A["vI64"] = scalar("i64", BV(64))
	A["vI32"] = scalar("i32", BV(32))
	A["vInt"] = scalar("i64", BV(64))
	A["vF32"] = scalar("f32", FP(32))
	A["vF64"] = scalar("f64", FP(64))
	A["vBig"] = func(p *Path, fr *frame, fn *ssa.Function, args []Value, pos token.Pos) Value {
		t := p.nondet(constName(p, fr, args[0], pos), "big", SInt)
		return p.newBig(t)
	}
	A["vBytes"] = func(p *Path, fr *frame, fn *ssa.Function, args []Value, pos token.Pos) Value {
		name := constName(p, fr, args[0], pos)
		nT := args[1].(*Term)
		if !nT.c {
			p.abort("inconclusive", "HARNESS-ERROR: vBytes length must be concrete")
		}
		n := int(nT.u)
		arr := make([]Value, n)
		for i := 0; i < n; i++ {
			arr[i] = p.nondet(fmt.Sprintf("%s[%d]", name, i), "u8", BV(8))
		}
		return SliceV{O: p.newObj(&ArrayV{E: arr, Mut: true}, nil, "vBytes"), Len: n, Cap: n}
	}
	A["vChoice"] = func(p *Path, fr *frame, fn *ssa.Function, args []Value, pos token.Pos) Value {
		name := constName(p, fr, args[0], pos)
		nT := args[1].(*Term)
		if !nT.c {
			p.abort("inconclusive", "HARNESS-ERROR: vChoice n must be concrete")
		}
		uname := name
		if k, ok := p.ndNames[name]; ok {
			p.ndNames[name] = k + 1
			uname = fmt.Sprintf("%s#%d", name, k+1)
		} else {
			p.ndNames[name] = 0
		}
		var c int
		if p.E.Cfg.Concrete != nil {
			t := parseConcrete(p.E.Cfg.Concrete[uname], "choice", BV(64))
			c = int(t.u)
			if c >= int(nT.u) {
				c = 0
			}
		} else {
			c = p.choose(int(nT.u), name)
		}
		p.choices[uname] = c
		p.nondets = append(p.nondets, NondetRec{uname, "choice", []*Term{BVConst(uint64(c), 64)}})
		return BVConst(uint64(c), 64)
	}
	A["vAssume"] = func(p *Path, fr *frame, fn *ssa.Function, args []Value, pos token.Pos) Value {
		c := args[0].(*Term)
		if c.c {
			if c.u == 0 {
				p.abort("infeasible", "assumption false")
			}
			return nil
		}
		p.assumes = append(p.assumes, p.where(fr, pos))
		if p.side != nil {
			p.assertPC(c) // recorded as (=> side c); a side whose assumption cannot hold is simply dead
			return nil
		}
		if len(p.decisions) < len(p.prefix) {
			p.assertPC(c) // feasibility was established when this prefix was first run
			return nil
		}
		p.assertPC(c)
		if r := p.S.Check(); r == Unsat {
			p.abort("infeasible", "assumption infeasible")
		}
		return nil
	}
	A["vAssert"] = func(p *Path, fr *frame, fn *ssa.Function, args []Value, pos token.Pos) Value {
		msg, _ := args[1].(StrV).Concrete()
		// "[Cxx] ..." assertions belong to one property; a run for another property skips them
		if p.E.Cfg.AssertTag != "" && strings.HasPrefix(msg, "[") {
			if i := strings.Index(msg, "]"); i > 0 && !strings.Contains(","+msg[1:i]+",", ","+p.E.Cfg.AssertTag+",") {
				p.res.AssertsSkipped++
				return nil
			}
		}
		p.checkAssert(args[0].(*Term), "assert", msg, fr, pos)
		return nil
	}
	A["vCover"] = func(p *Path, fr *frame, fn *ssa.Function, args []Value, pos token.Pos) Value {
		l, _ := args[0].(StrV).Concrete()
		p.covers[l] = true
		return nil
	}
	A["vMapOrderNondet"] = func(p *Path, fr *frame, fn *ssa.Function, args []Value, pos token.Pos) Value {
		p.mapOrderNondet = args[0].(*Term).u != 0
		return nil
	}
	A["vObserve"] = func(p *Path, fr *frame, fn *ssa.Function, args []Value, pos token.Pos) Value {
		name, _ := args[0].(StrV).Concrete()
		p.obs[name] = p.formatObs(args[1])
		return nil
	}
	A["vPanics"] = func(p *Path, fr *frame, fn *ssa.Function, args []Value, pos token.Pos) (res Value) {
		res = tFalse
		defer func() {
			if r := recover(); r != nil {
				if gp, ok := r.(goPanic); ok {
					p.recovered = append(p.recovered, "vPanics: "+gp.Msg+" @ "+gp.Where)
					p.lastPanic = gp.Msg + " at " + gp.Where
					res = tTrue
					return
				}
				panic(r)
			}
		}()
		p.callValue(fr, args[0], nil, pos)
		return
	}
	A["vNote"] = func(p *Path, fr *frame, fn *ssa.Function, args []Value, pos token.Pos) Value {
		s, _ := args[0].(StrV).Concrete()
		p.note(s)
		return nil
	}
	// vHash(tag, data []byte) [32]byte : uninterpreted, optionally injective
	A["vHash32"] = func(p *Path, fr *frame, fn *ssa.Function, args []Value, pos token.Pos) Value {
		tag, _ := args[0].(StrV).Concrete()
		in := p.sliceTerms(args[1].(SliceV))
		n := 32
		srt := make([]Sort, n)
		for i := range srt {
			srt[i] = BV(8)
		}
		out := p.uf(fmt.Sprintf("%s/%d", tag, len(in)), in, srt)
		arr := make([]Value, n)
		for i := range arr {
			arr[i] = out[i]
		}
		return &ArrayV{E: arr}
	}
	// vUF64(tag, args ...uint64) uint64
	A["vUF64"] = func(p *Path, fr *frame, fn *ssa.Function, args []Value, pos token.Pos) Value {
		tag, _ := args[0].(StrV).Concrete()
		in := p.sliceTerms(args[1].(SliceV))
		return p.uf(fmt.Sprintf("%s/%d", tag, len(in)), in, []Sort{BV(64)})[0]
	}
	A["vUFBool"] = func(p *Path, fr *frame, fn *ssa.Function, args []Value, pos token.Pos) Value {
		tag, _ := args[0].(StrV).Concrete()
		in := p.sliceTerms(args[1].(SliceV))
		return p.uf(fmt.Sprintf("%s/%d", tag, len(in)), in, []Sort{SBool})[0]
	}
	A["vUFBig"] = func(p *Path, fr *frame, fn *ssa.Function, args []Value, pos token.Pos) Value {
		tag, _ := args[0].(StrV).Concrete()
		in := p.sliceTerms(args[1].(SliceV))
		return p.newBig(p.uf(fmt.Sprintf("%s/%d", tag, len(in)), in, []Sort{SInt})[0])
	}
	// vBigEq/vBigLe helpers are plain Go in the API file (Cmp), nothing to intercept.
	// vIte64(c, a, b): merge without forking
	A["vIte64"] = func(p *Path, fr *frame, fn *ssa.Function, args []Value, pos token.Pos) Value {
		return p.tb.Ite(args[0].(*Term), args[1].(*Term), args[2].(*Term))
	}
	A["vAnd"] = func(p *Path, fr *frame, fn *ssa.Function, args []Value, pos token.Pos) Value {
		return p.tb.And(args[0].(*Term), args[1].(*Term))
	}
	A["vOr"] = func(p *Path, fr *frame, fn *ssa.Function, args []Value, pos token.Pos) Value {
		return p.tb.Or(args[0].(*Term), args[1].(*Term))
	}
	A["vImplies"] = func(p *Path, fr *frame, fn *ssa.Function, args []Value, pos token.Pos) Value {
		return p.tb.Implies(args[0].(*Term), args[1].(*Term))
	}
	// vBigCmpLe(a,b) etc: no-fork comparisons on *big.Int
	bigRel := func(f func(tb *TB, a, b *Term) *Term) intrinsicFn {
		return func(p *Path, fr *frame, fn *ssa.Function, args []Value, pos token.Pos) Value {
			return f(p.tb, bigArg(p, fr, args[0], pos), bigArg(p, fr, args[1], pos))
		}
	}
	A["vBigLe"] = bigRel(func(tb *TB, a, b *Term) *Term { return tb.ILe(a, b) })
	A["vBigLt"] = bigRel(func(tb *TB, a, b *Term) *Term { return tb.ILt(a, b) })
	A["vBigEq"] = bigRel(func(tb *TB, a, b *Term) *Term { return tb.Eq(a, b) })
	// vEq(a, b interface{}) bool : structural equality term without forking
	A["vEq"] = func(p *Path, fr *frame, fn *ssa.Function, args []Value, pos token.Pos) Value {
		return p.deepEq(args[0], args[1], 0)
	}
	// vConcretize(x, lo, hi): case split over the feasible values of x in [lo,hi]; values outside
	// make the path inconclusive (never silently dropped).
	A["vConcretize"] = func(p *Path, fr *frame, fn *ssa.Function, args []Value, pos token.Pos) Value {
		lo, hi := args[1].(*Term), args[2].(*Term)
		if !lo.c || !hi.c {
			p.abort("inconclusive", "HARNESS-ERROR: vConcretize bounds must be concrete")
		}
		t := args[0].(*Term)
		if t.c {
			return t
		}
		v := p.concInt(fr, t, types.Typ[types.Int], int(sext64(lo.u, 64)), int(sext64(hi.u, 64)), pos, "vConcretize")
		return BVConst(uint64(v), 64)
	}
	A["vProtoSame"] = apiProtoSame
	// vLockOrderConsistent(): no two mutexes were acquired in both orders on this path (a lock-order inversion
	// between two entry points that run in different goroutines is a potential deadlock). Natively always true.
	A["vLockOrderConsistent"] = func(p *Path, fr *frame, fn *ssa.Function, args []Value, pos token.Pos) Value {
		for e := range p.lockEdges {
			parts := strings.SplitN(e, " -> ", 2)
			if p.lockEdges[parts[1]+" -> "+parts[0]] {
				p.note("lock-order inversion: " + e + " and back")
				return tFalse
			}
		}
		return tTrue
	}
	// vNilIf(c, p unsafe.Pointer) unsafe.Pointer : p, or nil when c holds - without forking
	A["vNilIf"] = func(p *Path, fr *frame, fn *ssa.Function, args []Value, pos token.Pos) Value {
		c := args[0].(*Term)
		ptr := args[1].(PtrV)
		if c.c {
			if c.u != 0 {
				return PtrV{}
			}
			return ptr
		}
		if ptr.O == nil {
			return ptr
		}
		nc := c
		if ptr.Nil != nil {
			nc = p.tb.Or(ptr.Nil, c)
		}
		return PtrV{O: ptr.O, Path: ptr.Path, Nil: nc}
	}
	// vBigOr0(x): a fresh *big.Int holding x's value, or 0 when x is nil - without forking on nil-ness
	A["vBigOr0"] = func(p *Path, fr *frame, fn *ssa.Function, args []Value, pos token.Pos) Value {
		ptr := args[0].(PtrV)
		if ptr.O == nil {
			return p.newBig(IntConst64(0))
		}
		val := PtrV{O: ptr.O, Path: ptr.Path}.Load().(BigV).T
		if ptr.Nil == nil {
			return p.newBig(val)
		}
		return p.newBig(p.tb.Ite(ptr.Nil, IntConst64(0), val))
	}
	A["vLastPanic"] = func(p *Path, fr *frame, fn *ssa.Function, args []Value, pos token.Pos) Value {
		return StrConst(p.lastPanic)
	}
	A["vSetClockNondet"] = nil
	delete(A, "vSetClockNondet")
}

func callerPos(fr *frame, pos token.Pos) token.Pos { return pos }

// deepEq: structural equality following pointers, slices (by content) and big.Ints.
func (p *Path) deepEq(a, b Value, depth int) *Term {
	tb := p.tb
	if depth > 12 {
		p.abort("inconclusive", "vEq recursion too deep")
	}
	switch x := a.(type) {
	case nil:
		return BoolT(b == nil)
	case *Term:
		y, ok := b.(*Term)
		if !ok || x.S != y.S {
			return tFalse
		}
		return tb.Eq(x, y)
	case BigV:
		y, ok := b.(BigV)
		if !ok {
			return tFalse
		}
		return tb.Eq(x.T, y.T)
	case StrV:
		y, ok := b.(StrV)
		if !ok {
			return tFalse
		}
		return p.eqValue(x, y)
	case *StructV:
		y, ok := b.(*StructV)
		if !ok || len(x.F) != len(y.F) {
			return tFalse
		}
		r := tTrue
		for i := range x.F {
			r = tb.And(r, p.deepEq(x.F[i], y.F[i], depth+1))
		}
		return r
	case *ArrayV:
		y, ok := b.(*ArrayV)
		if !ok || len(x.E) != len(y.E) {
			return tFalse
		}
		r := tTrue
		for i := range x.E {
			r = tb.And(r, p.deepEq(x.E[i], y.E[i], depth+1))
		}
		return r
	case PtrV:
		y, ok := b.(PtrV)
		if !ok {
			return tFalse
		}
		xn, yn := nilTerm(x), nilTerm(y)
		if x.O == nil || y.O == nil {
			return tb.And(xn, yn)
		}
		var inner *Term
		if ptrEq(PtrV{O: x.O, Path: x.Path}, PtrV{O: y.O, Path: y.Path}) {
			inner = tTrue
		} else {
			inner = p.deepEq(PtrV{O: x.O, Path: x.Path}.Load(), PtrV{O: y.O, Path: y.Path}.Load(), depth+1)
		}
		return tb.Or(tb.And(xn, yn), tb.And(tb.And(tb.Not(xn), tb.Not(yn)), inner))
	case SliceV:
		y, ok := b.(SliceV)
		if !ok {
			return tFalse
		}
		// two opaque encodings: equal exactly when what they encode is (integers; nested messages)
		if x.O != nil && y.O != nil && x.Off == 0 && y.Off == 0 && x.Len > 0 && y.Len > 0 && x.Len == len(p.backing(x.O).E) && y.Len == len(p.backing(y.O).E) {
			if xa, ok := p.bigBlobs[x.O]; ok {
				if xb, ok := p.bigBlobs[y.O]; ok {
					return tb.Eq(xa, xb)
				}
			}
			if pa, ok := p.protoBlobs[x.O]; ok {
				if pb, ok := p.protoBlobs[y.O]; ok {
					if !types.Identical(pa.typ, pb.typ) {
						return tFalse
					}
					return p.deepEq(pa.snap, pb.snap, depth+1)
				}
			}
		}
		// nil and empty are distinguished like reflect.DeepEqual
		if x.IsNil() != y.IsNil() || x.Len != y.Len {
			return tFalse
		}
		r := tTrue
		for i := 0; i < x.Len; i++ {
			r = tb.And(r, p.deepEq(p.sliceGet(x, i), p.sliceGet(y, i), depth+1))
		}
		return r
	case IfaceV:
		y, ok := b.(IfaceV)
		if !ok {
			return tFalse
		}
		if x.T == nil || y.T == nil {
			return BoolT(x.T == nil && y.T == nil)
		}
		if !types.Identical(x.T, y.T) {
			return tFalse
		}
		return p.deepEq(x.V, y.V, depth+1)
	case *MapV:
		y, ok := b.(*MapV)
		if !ok {
			return tFalse
		}
		if x == nil || y == nil {
			return BoolT(x == nil && y == nil)
		}
		if len(x.E) != len(y.E) {
			return tFalse
		}
		r := tTrue
		for _, ex := range x.E {
			any := tFalse
			for _, ey := range y.E {
				any = tb.Or(any, tb.And(p.deepEq(ex.K, ey.K, depth+1), p.deepEq(ex.V, ey.V, depth+1)))
			}
			r = tb.And(r, any)
		}
		return r
	case OpaqueV:
		y, ok := b.(OpaqueV)
		return BoolT(ok && x.ID == y.ID)
	case *FuncV:
		y, ok := b.(*FuncV)
		return BoolT(ok && x == nil && y == nil)
	}
	p.abort("inconclusive", fmt.Sprintf("vEq on %T", a))
	return nil
}

// formatObs: canonical text for observations (must match the native API implementation).
func (p *Path) formatObs(v Value) string {
	switch a := v.(type) {
	case IfaceV:
		if a.T == nil {
			return "nil"
		}
		// errors: only nil-ness
		if isErrorLike(p, a) {
			if _, isPtrBig := a.V.(PtrV); !isPtrBig || !isBigPtr(a.T) {
				return "err"
			}
		}
		if isBigPtr(a.T) {
			ptr := p.rp(nil, a.V, token.NoPos)
			if ptr.IsNil() {
				return "nil"
			}
			return p.formatObs(ptr.Load())
		}
		if b, ok := a.T.Underlying().(*types.Basic); ok {
			if _, signed, ok2 := basicSort(b); ok2 {
				if t, ok3 := a.V.(*Term); ok3 && t.S.K == KBV {
					if !t.c {
						p.obsTerms = append(p.obsTerms, obsTerm{t, signed})
						return fmt.Sprintf("\x00%d\x00", len(p.obsTerms)-1)
					}
					if signed {
						return fmt.Sprint(sext64(t.u, t.S.W))
					}
					return fmt.Sprint(t.u)
				}
			}
		}
		return p.formatObs(a.V)
	case *Term:
		if !a.c {
			p.obsTerms = append(p.obsTerms, obsTerm{a, false})
			return fmt.Sprintf("\x00%d\x00", len(p.obsTerms)-1)
		}
		switch a.S.K {
		case KBool:
			return fmt.Sprint(a.u != 0)
		case KBV:
			return fmt.Sprint(a.u)
		case KFP:
			if a.S.W == 32 {
				return fmt.Sprintf("f32:%d", math.Float32bits(float32(a.f)))
			}
			return fmt.Sprintf("f64:%d", math.Float64bits(a.f))
		case KInt:
			return a.b.String()
		}
	case BigV:
		if a.T.c {
			return a.T.b.String()
		}
		p.obsTerms = append(p.obsTerms, obsTerm{a.T, false})
		return fmt.Sprintf("\x00%d\x00", len(p.obsTerms)-1)
	case StrV:
		s, ok := a.Concrete()
		if !ok {
			return fmt.Sprintf("<symbolic string of length %d>", len(a.B))
		}
		return strconv.Quote(s)
	case SliceV:
		if a.IsNil() {
			return "[]"
		}
		parts := make([]string, a.Len)
		for i := 0; i < a.Len; i++ {
			parts[i] = p.formatObs(p.sliceGet(a, i))
		}
		return "[" + strings.Join(parts, " ") + "]"
	case *ArrayV:
		parts := make([]string, len(a.E))
		for i := range a.E {
			parts[i] = p.formatObs(a.E[i])
		}
		return "[" + strings.Join(parts, " ") + "]"
	case *StructV:
		parts := make([]string, len(a.F))
		for i := range a.F {
			parts[i] = p.formatObs(a.F[i])
		}
		return "{" + strings.Join(parts, " ") + "}"
	case PtrV:
		a = p.rp(nil, a, token.NoPos)
		if a.IsNil() {
			return "nil"
		}
		return "&" + p.formatObs(a.Load())
	case nil:
		return "nil"
	}
	return fmt.Sprintf("<%T>", v)
}

func isBigPtr(t types.Type) bool {
	if pt, ok := t.(*types.Pointer); ok {
		return isBigInt(pt.Elem())
	}
	return false
}

type obsTerm struct {
	t      *Term
	signed bool
}

// resolveObs substitutes model values for the symbolic leaves of the observations.
func (p *Path) resolveObs() map[string]string {
	res := map[string]string{}
	if len(p.obs) == 0 {
		return res
	}
	vals := make([]string, len(p.obsTerms))
	if p.S != nil && len(p.obsTerms) > 0 {
		var qs []string
		for _, ot := range p.obsTerms {
			qs = append(qs, ot.t.s)
		}
		got := p.S.GetValues(qs)
		for i, ot := range p.obsTerms {
			mv := parseModelValue(got[ot.t.s], ot.t.S)
			switch ot.t.S.K {
			case KBV:
				if ot.signed {
					u, _ := strconv.ParseUint(mv, 10, 64)
					mv = fmt.Sprint(sext64(u, ot.t.S.W))
				}
			case KFP:
				if ot.t.S.W == 32 {
					mv = "f32:" + mv
				} else {
					mv = "f64:" + mv
				}
			}
			vals[i] = mv
		}
	}
	for k, v := range p.obs {
		for i := range vals {
			v = strings.ReplaceAll(v, fmt.Sprintf("\x00%d\x00", i), vals[i])
		}
		res[k] = v
	}
	return res
}
