package sx

import (
	"fmt"
	"go/types"
	"os"
	"path/filepath"
	"regexp"
	"sort"
	"strings"

	"golang.org/x/tools/go/packages"
)

// Type-directed harness support. A harness file may say
//
//	//verif:gen Transaction Header -Identity.metadata
//
// For every named struct type listed (and every repo struct type reachable from it through fields) two
// functions are generated INTO THE TYPE'S OWN PACKAGE (as overlay file zz_verif_gen.go), from the field list of
// /repo's current source:
//
//	VFill_T(x *T, name string)   x := an arbitrary value of T (every field, exported or not, by type)
//	VEq_T(a, b *T) bool          structural equality field by field, modulo nil == empty bytes and nil == 0 big.Int
//
// They are ordinary Go over the harness API (vU8, vChoice, vNilIf ...), so the symbolic executor runs them like
// any harness code and the native replay compiles them as they are. A field added to T tomorrow is filled and
// compared automatically. "-T.f" excludes field f of T (transient caches that are not part of any encoding).

var genRe = regexp.MustCompile(`^//verif:gen\s+(.*)$`)

type GenRequest struct {
	Types   map[string][]string // repo-relative package path -> type names
	Exclude map[string]bool     // "T.field"
}

func DiscoverGen(harnessDir string) (*GenRequest, error) {
	r := &GenRequest{Types: map[string][]string{}, Exclude: map[string]bool{}}
	err := filepath.Walk(harnessDir, func(p string, info os.FileInfo, err error) error {
		if err != nil || info.IsDir() || !strings.HasSuffix(p, ".go") || !strings.HasPrefix(info.Name(), "zz_verif") {
			return nil
		}
		rel, _ := filepath.Rel(harnessDir, filepath.Dir(p))
		if strings.HasPrefix(rel, "_") {
			return nil
		}
		b, err := os.ReadFile(p)
		if err != nil {
			return err
		}
		for _, l := range strings.Split(string(b), "\n") {
			m := genRe.FindStringSubmatch(strings.TrimSpace(l))
			if m == nil {
				continue
			}
			for _, w := range strings.Fields(m[1]) {
				if strings.HasPrefix(w, "-") {
					r.Exclude[w[1:]] = true
				} else {
					r.Types[rel] = append(r.Types[rel], w)
				}
			}
		}
		return nil
	})
	return r, err
}

type genPkg struct {
	rel     string
	pkg     *types.Package
	imports map[string]string // path -> alias
	body    strings.Builder
	done    map[string]bool
}

type generator struct {
	elemNonNil bool // the value being filled is an element of a list / map: pointers are set (lists hold no nil elements)
	req   *GenRequest
	pkgs  map[string]*genPkg // by package path
	work  []*types.Named
	notes []string
}

func (g *generator) pkgOf(p *types.Package) *genPkg {
	gp := g.pkgs[p.Path()]
	if gp == nil {
		gp = &genPkg{rel: strings.TrimPrefix(p.Path(), RepoMod+"/"), pkg: p, imports: map[string]string{}, done: map[string]bool{}}
		g.pkgs[p.Path()] = gp
	}
	return gp
}

func inRepo(p *types.Package) bool {
	return p != nil && strings.HasPrefix(p.Path(), RepoMod+"/") && !strings.HasSuffix(p.Path(), "/zzverifrt")
}

func isSyncPkg(p *types.Package) bool {
	return p != nil && (p.Path() == "sync" || p.Path() == "sync/atomic")
}

// qualifier for printing types inside gp's file
func (gp *genPkg) qual(p *types.Package) string {
	if p == gp.pkg {
		return ""
	}
	if a, ok := gp.imports[p.Path()]; ok {
		return a
	}
	a := fmt.Sprintf("g%d%s", len(gp.imports), p.Name())
	gp.imports[p.Path()] = a
	return a
}

func (gp *genPkg) ts(t types.Type) string { return types.TypeString(t, gp.qual) }

func (gp *genPkg) need(path, alias string) string {
	if a, ok := gp.imports[path]; ok {
		return a
	}
	gp.imports[path] = alias
	return alias
}

// repoStruct reports whether t is a named struct type declared in the repository.
func repoStruct(t types.Type) (*types.Named, bool) {
	n, ok := t.(*types.Named)
	if !ok {
		return nil, false
	}
	if _, ok := n.Underlying().(*types.Struct); !ok {
		return nil, false
	}
	return n, n.Obj() != nil && inRepo(n.Obj().Pkg())
}

func skipType(t types.Type) bool {
	switch u := t.(type) {
	case *types.Named:
		if u.Obj() != nil && isSyncPkg(u.Obj().Pkg()) {
			return true
		}
		if _, ok := u.Underlying().(*types.Struct); ok && !inRepo(u.Obj().Pkg()) {
			// foreign struct (time.Time, decimal.Decimal, cid.Cid ...): not filled, not compared
			if u.Obj().Pkg() != nil && u.Obj().Pkg().Path() == "math/big" {
				return true // only *big.Int is handled
			}
			return true
		}
		return skipType(u.Underlying())
	case *types.Interface, *types.Signature, *types.Chan:
		return true
	case *types.Pointer:
		if genIsBigInt(u.Elem()) {
			return false
		}
		return skipType(u.Elem())
	case *types.Slice:
		return skipType(u.Elem())
	case *types.Array:
		return skipType(u.Elem())
	case *types.Map:
		return skipType(u.Key()) || skipType(u.Elem())
	case *types.Basic:
		return u.Kind() == types.UnsafePointer || u.Info()&types.IsComplex != 0
	}
	return false
}

func genIsBigInt(t types.Type) bool {
	n, ok := t.(*types.Named)
	return ok && n.Obj() != nil && n.Obj().Pkg() != nil && n.Obj().Pkg().Path() == "math/big" && n.Obj().Name() == "Int"
}

func isByte(t types.Type) bool {
	b, ok := t.Underlying().(*types.Basic)
	return ok && b.Kind() == types.Uint8
}

func (g *generator) fnName(gp *genPkg, n *types.Named, what string) string {
	g.enqueue(n)
	name := "V" + what + "_" + n.Obj().Name()
	if q := gp.qual(n.Obj().Pkg()); q != "" {
		return q + "." + name
	}
	return name
}

func (g *generator) enqueue(n *types.Named) {
	gp := g.pkgOf(n.Obj().Pkg())
	if gp.done[n.Obj().Name()] {
		return
	}
	gp.done[n.Obj().Name()] = true
	g.work = append(g.work, n)
}

var genTmp int

func tmp(prefix string) string {
	genTmp++
	return fmt.Sprintf("%s%d", prefix, genTmp)
}

// fill emits statements that assign an arbitrary value of type t to the addressable expression lv.
func (g *generator) fill(gp *genPkg, w *strings.Builder, ind string, t types.Type, lv, name string, depth int) {
	if skipType(t) || depth > 6 {
		return
	}
	if n, ok := repoStruct(t); ok {
		fmt.Fprintf(w, "%s%s(&%s, %s)\n", ind, g.fnName(gp, n, "Fill"), lv, name)
		return
	}
	ty := gp.ts(t)
	switch u := t.Underlying().(type) {
	case *types.Basic:
		var call string
		switch u.Kind() {
		case types.Bool:
			call = "vBool"
		case types.Uint8:
			call = "vU8"
		case types.Uint16:
			call = "vU16"
		case types.Uint32:
			call = "vU32"
		case types.Uint64, types.Uint, types.Uintptr:
			call = "vU64"
		case types.Int64, types.Int:
			call = "vI64"
		case types.Int32, types.Int16, types.Int8:
			call = "vI32"
		case types.Float32:
			call = "vF32"
		case types.Float64:
			call = "vF64"
		case types.String:
			fmt.Fprintf(w, "%sif !vGenLean && vBool(%s+\".nonEmpty\") {\n%s\t%s = %s(string([]byte{'a' + vU8(%s)%%2}))\n%s}\n", ind, name, ind, lv, ty, name, ind)
			return
		default:
			return
		}
		fmt.Fprintf(w, "%s%s = %s(%s(%s))\n", ind, lv, ty, call, name)
		if u.Info()&types.IsFloat != 0 {
			fmt.Fprintf(w, "%svAssume(%s == %s) // not NaN\n", ind, lv, lv)
		}
	case *types.Pointer:
		el := u.Elem()
		us := gp.need("unsafe", "unsafe")
		if genIsBigInt(el) {
			b := tmp("b")
			fmt.Fprintf(w, "%s%s := vBig(%s)\n%svAssume(%s.Sign() >= 0)\n", ind, b, name, ind, b)
			if g.elemNonNil {
				g.elemNonNil = false
				fmt.Fprintf(w, "%s%s = %s\n", ind, lv, b)
				return
			}
			fmt.Fprintf(w, "%s%s = (%s)(vNilIf(vOr(vGenNoOptional, vBool(%s+\".nil\")), %s.Pointer(%s)))\n", ind, lv, ty, name, us, b)
			return
		}
		e := tmp("e")
		nonNil := g.elemNonNil
		g.elemNonNil = false
		fmt.Fprintf(w, "%s%s := new(%s)\n", ind, e, gp.ts(el))
		g.fill(gp, w, ind, el, "(*"+e+")", name, depth+1)
		if nonNil {
			fmt.Fprintf(w, "%s%s = %s\n", ind, lv, e)
		} else {
			fmt.Fprintf(w, "%s%s = (%s)(vNilIf(vOr(vGenNoOptional, vBool(%s+\".nil\")), %s.Pointer(%s)))\n", ind, lv, ty, name, us, e)
		}
	case *types.Array:
		i := tmp("i")
		fmt.Fprintf(w, "%sfor %s := range %s {\n", ind, i, lv)
		g.fill(gp, w, ind+"\t", u.Elem(), fmt.Sprintf("%s[%s]", lv, i), name+"+vGenIdx("+i+")", depth+1)
		fmt.Fprintf(w, "%s}\n", ind)
	case *types.Slice:
		k, i := tmp("k"), tmp("i")
		maxLen := "vGenMaxLen()"
		if !isByte(u.Elem()) {
			maxLen = "2" // two elements also in the quick tier: aliasing and ordering mistakes need a second element to show
		}
		fmt.Fprintf(w, "%sfor %s, %s := 0, vGenLen(%s+\".len\", %s); %s < %s; %s++ {\n", ind, i, k, name, maxLen, i, k, i)
		e := tmp("e")
		fmt.Fprintf(w, "%s\tvar %s %s\n", ind, e, gp.ts(u.Elem()))
		lean := tmp("lean")
		if !isByte(u.Elem()) {
			// elements after the first are lean (no nested byte strings / lists): keeps the product of choices small
			fmt.Fprintf(w, "%s\t%s := vGenLean\n%s\tif %s > 0 {\n%s\t\tvGenLean = true\n%s\t}\n", ind, lean, ind, i, ind, ind)
		}
		g.elemNonNil = true
		g.fill(gp, w, ind+"\t", u.Elem(), e, name+"+vGenIdx("+i+")", depth+1)
		g.elemNonNil = false
		if !isByte(u.Elem()) {
			fmt.Fprintf(w, "%s\tvGenLean = %s\n", ind, lean)
		}
		fmt.Fprintf(w, "%s\t%s = append(%s, %s)\n%s}\n", ind, lv, lv, e, ind)
	case *types.Map:
		kv, vv := tmp("mk"), tmp("mv")
		fmt.Fprintf(w, "%sif !vGenLean && vBool(%s+\".hasEntry\") {\n", ind, name)
		fmt.Fprintf(w, "%s\tvar %s %s\n%s\tvar %s %s\n", ind, kv, gp.ts(u.Key()), ind, vv, gp.ts(u.Elem()))
		g.fill(gp, w, ind+"\t", u.Key(), kv, name+"+\".key\"", depth+1)
		g.elemNonNil = true
		g.fill(gp, w, ind+"\t", u.Elem(), vv, name+"+\".value\"", depth+1)
		g.elemNonNil = false
		fmt.Fprintf(w, "%s\t%s = %s{%s: %s}\n%s}\n", ind, lv, ty, kv, vv, ind)
	case *types.Struct:
		for i := 0; i < u.NumFields(); i++ {
			f := u.Field(i)
			g.fill(gp, w, ind, f.Type(), lv+"."+f.Name(), name+"+\"."+f.Name()+"\"", depth+1)
		}
	}
}

// eq emits statements that and the equality of a and b (expressions of type t) into ok.
func (g *generator) eq(gp *genPkg, w *strings.Builder, ind string, t types.Type, a, b string, depth int) {
	if skipType(t) || depth > 6 {
		return
	}
	if n, ok := repoStruct(t); ok {
		fmt.Fprintf(w, "%sok = vAnd(ok, %s(&%s, &%s))\n", ind, g.fnName(gp, n, "Eq"), a, b)
		return
	}
	switch u := t.Underlying().(type) {
	case *types.Basic:
		fmt.Fprintf(w, "%sok = vAnd(ok, %s == %s)\n", ind, a, b)
	case *types.Pointer:
		if genIsBigInt(u.Elem()) {
			fmt.Fprintf(w, "%sok = vAnd(ok, vBigEq(vBigOr0(%s), vBigOr0(%s)))\n", ind, a, b)
			return
		}
		fmt.Fprintf(w, "%sif %s == nil {\n%s\tok = vAnd(ok, %s == nil)\n%s} else if %s == nil {\n%s\tok = false\n%s} else {\n", ind, a, ind, b, ind, b, ind, ind)
		g.eq(gp, w, ind+"\t", u.Elem(), "(*"+a+")", "(*"+b+")", depth+1)
		fmt.Fprintf(w, "%s}\n", ind)
	case *types.Array:
		if isByte(u.Elem()) {
			fmt.Fprintf(w, "%sok = vAnd(ok, %s == %s)\n", ind, a, b)
			return
		}
		i := tmp("i")
		fmt.Fprintf(w, "%sfor %s := range %s {\n", ind, i, a)
		g.eq(gp, w, ind+"\t", u.Elem(), fmt.Sprintf("%s[%s]", a, i), fmt.Sprintf("%s[%s]", b, i), depth+1)
		fmt.Fprintf(w, "%s}\n", ind)
	case *types.Slice:
		if isByte(u.Elem()) {
			by := gp.need("bytes", "bytes")
			fmt.Fprintf(w, "%sok = vAnd(ok, %s.Equal([]byte(%s), []byte(%s)))\n", ind, by, a, b)
			return
		}
		i := tmp("i")
		fmt.Fprintf(w, "%sif len(%s) != len(%s) {\n%s\tok = false\n%s} else {\n%s\tfor %s := range %s {\n", ind, a, b, ind, ind, ind, i, a)
		g.eq(gp, w, ind+"\t\t", u.Elem(), fmt.Sprintf("%s[%s]", a, i), fmt.Sprintf("%s[%s]", b, i), depth+1)
		fmt.Fprintf(w, "%s\t}\n%s}\n", ind, ind)
	case *types.Map:
		k, va, vb, has := tmp("k"), tmp("va"), tmp("vb"), tmp("has")
		fmt.Fprintf(w, "%sif len(%s) != len(%s) {\n%s\tok = false\n%s} else {\n%s\tfor %s, %s := range %s {\n", ind, a, b, ind, ind, ind, k, va, a)
		fmt.Fprintf(w, "%s\t\t%s, %s := %s[%s]\n%s\t\tif !%s {\n%s\t\t\tok = false\n%s\t\t} else {\n", ind, vb, has, b, k, ind, has, ind, ind)
		var inner strings.Builder
		g.eq(gp, &inner, ind+"\t\t\t", u.Elem(), va, vb, depth+1)
		if inner.Len() == 0 {
			fmt.Fprintf(w, "%s\t\t\t_, _ = %s, %s\n", ind, va, vb)
		}
		w.WriteString(inner.String())
		fmt.Fprintf(w, "%s\t\t}\n%s\t}\n%s}\n", ind, ind, ind)
	case *types.Struct:
		for i := 0; i < u.NumFields(); i++ {
			f := u.Field(i)
			g.eq(gp, w, ind, f.Type(), a+"."+f.Name(), b+"."+f.Name(), depth+1)
		}
	}
}

func (g *generator) genType(n *types.Named) {
	gp := g.pkgOf(n.Obj().Pkg())
	st := n.Underlying().(*types.Struct)
	tn := n.Obj().Name()
	var fw, ew strings.Builder
	for i := 0; i < st.NumFields(); i++ {
		f := st.Field(i)
		if g.req.Exclude[tn+"."+f.Name()] {
			g.notes = append(g.notes, "excluded "+tn+"."+f.Name())
			continue
		}
		if skipType(f.Type()) {
			g.notes = append(g.notes, fmt.Sprintf("skipped %s.%s (%s)", tn, f.Name(), f.Type()))
			continue
		}
		g.fill(gp, &fw, "\t", f.Type(), "x."+f.Name(), "name+\"."+f.Name()+"\"", 0)
		g.eq(gp, &ew, "\t", f.Type(), "a."+f.Name(), "b."+f.Name(), 0)
	}
	fmt.Fprintf(&gp.body, "// VFill_%s: *x becomes an arbitrary %s (fields by type, from the current source).\nfunc VFill_%s(x *%s, name string) {\n%s}\n\n", tn, tn, tn, tn, fw.String())
	fmt.Fprintf(&gp.body, "// VEq_%s: field-by-field equality (nil == empty bytes, nil == 0 for *big.Int).\nfunc VEq_%s(a, b *%s) bool {\n\tok := true\n%s\treturn ok\n}\n\n", tn, tn, tn, ew.String())
}

// GenerateTypeSupport writes zz_verif_gen.go (and, for packages without harness files, the API files) into genDir.
func GenerateTypeSupport(repo, harnessDir, genDir string, req *GenRequest) ([]string, error) {
	if len(req.Types) == 0 {
		return nil, nil
	}
	empty := filepath.Join(genDir, "_empty")
	if err := os.MkdirAll(empty, 0o755); err != nil {
		return nil, err
	}
	ov, _, err := BuildOverlay(repo, empty, false) // the two module-cache fixes only
	if err != nil {
		return nil, err
	}
	env := append(os.Environ(), "GOFLAGS=-mod=mod", "GOPROXY=off", "GOSUMDB=off", "GOTOOLCHAIN=local", "CGO_ENABLED=1")
	var patterns []string
	for rel := range req.Types {
		patterns = append(patterns, RepoMod+"/"+rel)
	}
	sort.Strings(patterns)
	cfg := &packages.Config{Mode: packages.NeedName | packages.NeedTypes | packages.NeedImports | packages.NeedDeps | packages.NeedSyntax | packages.NeedTypesInfo, Dir: repo, Overlay: ov, Env: env}
	initial, err := packages.Load(cfg, patterns...)
	if err != nil {
		return nil, err
	}
	g := &generator{req: req, pkgs: map[string]*genPkg{}}
	for _, ip := range initial {
		if ip.Types == nil {
			return nil, fmt.Errorf("verif:gen: cannot type-check %s", ip.PkgPath)
		}
		rel := strings.TrimPrefix(ip.PkgPath, RepoMod+"/")
		for _, tn := range req.Types[rel] {
			obj := ip.Types.Scope().Lookup(tn)
			if obj == nil {
				return nil, fmt.Errorf("verif:gen: type %s not found in %s", tn, ip.PkgPath)
			}
			n, ok := repoStruct(obj.Type())
			if !ok {
				return nil, fmt.Errorf("verif:gen: %s.%s is not a struct type", ip.PkgPath, tn)
			}
			g.enqueue(n)
		}
	}
	for len(g.work) > 0 {
		n := g.work[0]
		g.work = g.work[1:]
		g.genType(n)
	}
	api, err := os.ReadFile(filepath.Join(harnessDir, "_tmpl", "zz_verif_api.go.tmpl"))
	if err != nil {
		return nil, err
	}
	for _, gp := range g.pkgs {
		d := filepath.Join(genDir, gp.rel)
		if err := os.MkdirAll(d, 0o755); err != nil {
			return nil, err
		}
		var sb strings.Builder
		fmt.Fprintf(&sb, "// Code generated by gosmt from the struct definitions of the current source tree. DO NOT EDIT.\npackage %s\n\n", gp.pkg.Name())
		var paths []string
		for p, alias := range gp.imports {
			if strings.Contains(gp.body.String(), alias+".") {
				paths = append(paths, p)
			}
		}
		sort.Strings(paths)
		if len(paths) > 0 {
			sb.WriteString("import (\n")
			for _, p := range paths {
				fmt.Fprintf(&sb, "\t%s %q\n", gp.imports[p], p)
			}
			sb.WriteString(")\n\n")
		}
		sb.WriteString("func vGenMaxLen() int {\n\tif vThorough() {\n\t\treturn 2\n\t}\n\treturn 1\n}\n\n")
		// every generated input has its own name (no reliance on the order in which equal names are numbered)
		sb.WriteString("// vGenLean: nested byte strings and lists stay empty (set while the later elements of a list are filled)\nvar vGenLean bool\n\n// vGenNoOptional: optional (pointer) fields stay nil\nvar vGenNoOptional bool\n\nfunc vGenLen(name string, max int) int {\n\tif vGenLean {\n\t\treturn 0\n\t}\n\treturn vChoice(name, max+1)\n}\n\n")
		sb.WriteString("var vGenIdxTab = [...]string{")
		for i := 0; i < 64; i++ {
			fmt.Fprintf(&sb, "\"[%d]\", ", i)
		}
		sb.WriteString("}\n\nfunc vGenIdx(i int) string {\n\tif i < len(vGenIdxTab) {\n\t\treturn vGenIdxTab[i]\n\t}\n\treturn \"[+]\"\n}\n\n")
		sb.WriteString(gp.body.String())
		if err := os.WriteFile(filepath.Join(d, "zz_verif_gen.go"), []byte(sb.String()), 0o644); err != nil {
			return nil, err
		}
		if _, err := os.Stat(filepath.Join(d, "zz_verif_api.go")); err != nil {
			// a package that only hosts generated functions: it needs the harness API too
			if err := os.WriteFile(filepath.Join(d, "zz_verif_api.go"), []byte(strings.ReplaceAll(string(api), "PKGNAME", gp.pkg.Name())), 0o644); err != nil {
				return nil, err
			}
		}
	}
	sort.Strings(g.notes)
	return g.notes, nil
}
