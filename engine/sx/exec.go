package sx

import (
	"fmt"
	"go/constant"
	"go/token"
	"go/types"
	"math/big"
	"strings"

	"golang.org/x/tools/go/ssa"
)

// ---- control-flow signals (Go panics used inside the interpreter) ----

// goPanic is a Go-level panic raised by the program under analysis.
type goPanic struct {
	V     Value
	Msg   string
	Where string
}

// pathAbort ends the current path.
type pathAbort struct {
	Kind   string // "infeasible", "inconclusive", "stop"
	Reason string
}

type deferred struct {
	fn   Value
	args []Value
	site *ssa.Defer
}

type frame struct {
	p         *Path
	fn        *ssa.Function
	caller    *frame
	env       map[ssa.Value]Value
	block     *ssa.BasicBlock
	prev      *ssa.BasicBlock
	defers    []deferred
	result    Value
	panicking bool
	panicV    interface{}
	visits    map[int]int
	depth     int
	mergedPhis    []Value
	hasMergedPhis bool
}

func (fr *frame) get(v ssa.Value) Value {
	switch x := v.(type) {
	case *ssa.Const:
		return fr.p.constValue(x)
	case *ssa.Global:
		return PtrV{O: fr.p.globalObj(x)}
	case *ssa.Function:
		return &FuncV{Fn: x}
	case *ssa.Builtin:
		return &FuncV{Builtin: "go:" + x.Name()}
	}
	r, ok := fr.env[v]
	if !ok {
		panic(fmt.Sprintf("engine: no value for %s (%T) in %s", v.Name(), v, fr.fn))
	}
	return r
}

func (p *Path) constValue(c *ssa.Const) Value {
	t := c.Type()
	if c.Value == nil {
		return Zero(t)
	}
	switch u := t.Underlying().(type) {
	case *types.Basic:
		info := u.Info()
		switch {
		case info&types.IsBoolean != 0:
			return BoolT(constant.BoolVal(c.Value))
		case info&types.IsString != 0:
			return StrConst(constant.StringVal(c.Value))
		case info&types.IsInteger != 0:
			s, _, _ := basicSort(u)
			if v, ok := constant.Int64Val(constant.ToInt(c.Value)); ok {
				return BVConst(uint64(v), s.W)
			}
			v, _ := constant.Uint64Val(constant.ToInt(c.Value))
			return BVConst(v, s.W)
		case info&types.IsFloat != 0:
			s, _, _ := basicSort(u)
			f, _ := constant.Float64Val(c.Value)
			return FPConst(f, s.W)
		}
	case *types.TypeParam:
	}
	panic(fmt.Sprintf("engine: unsupported constant %v of type %v", c, t))
}

func (p *Path) globalObj(g *ssa.Global) *Obj {
	if o, ok := p.globals[g]; ok {
		return o
	}
	// globals of packages without executed init: zero value (recorded)
	elem := g.Type().(*types.Pointer).Elem()
	o := p.newObj(Zero(elem), elem, "global:"+g.String())
	p.globals[g] = o
	if g.Pkg != nil && !p.E.initDone[g.Pkg] {
		p.note("global-without-init:" + g.String())
	}
	return o
}

func (p *Path) newObj(v Value, t types.Type, name string) *Obj {
	p.nObj++
	if a, ok := v.(*ArrayV); ok && a.Mut {
		a.born = p.nObj
	}
	return &Obj{V: v, ID: p.nObj, Name: name, Typ: t, owner: p}
}

func (p *Path) where(fr *frame, pos token.Pos) string {
	if pos == token.NoPos && fr != nil {
		pos = fr.fn.Pos()
	}
	if pos == token.NoPos {
		if fr != nil {
			return fr.fn.String()
		}
		return "?"
	}
	ps := p.E.P.Fset.Position(pos)
	fn := ps.Filename
	if i := strings.Index(fn, "idena-go/"); i >= 0 {
		fn = fn[i+9:]
	}
	fn = strings.TrimPrefix(fn, "/repo/")
	return fmt.Sprintf("%s:%d", fn, ps.Line)
}

func (p *Path) goPanic(fr *frame, pos token.Pos, msg string) {
	panic(goPanic{V: IfaceV{T: p.E.opaqueErrT, V: OpaqueV{Kind: "runtime", Msg: StrConst(msg)}}, Msg: msg, Where: p.where(fr, pos)})
}

func (p *Path) abort(kind, reason string) {
	panic(pathAbort{kind, reason})
}

// callChain renders the Go call stack of the program under analysis (innermost first).
func callChain(fr *frame, n int) string {
	var parts []string
	for f := fr; f != nil && len(parts) < n; f = f.caller {
		parts = append(parts, f.fn.Name())
	}
	return strings.Join(parts, " <- ")
}

func (p *Path) unsupported(fr *frame, pos token.Pos, what string) {
	p.abort("inconclusive", "unsupported: "+what+" at "+p.where(fr, pos))
}

// rp resolves a maybe-nil pointer (symbolic nil-ness) into a definite one by forking.
func (p *Path) rp(fr *frame, v Value, pos token.Pos) PtrV {
	ptr := v.(PtrV)
	if ptr.Nil == nil || ptr.O == nil {
		return PtrV{O: ptr.O, Path: ptr.Path}
	}
	if p.forkBool(ptr.Nil, fr, pos) {
		return PtrV{}
	}
	return PtrV{O: ptr.O, Path: ptr.Path}
}

func (p *Path) rv(fr *frame, v Value, pos token.Pos) Value {
	if ptr, ok := v.(PtrV); ok && ptr.Nil != nil {
		return p.rp(fr, ptr, pos)
	}
	return v
}

// ---- calls ----

func (p *Path) callValue(fr *frame, fv Value, args []Value, pos token.Pos) Value {
	f, ok := fv.(*FuncV)
	if ok && f != nil && f.Nil != nil {
		if p.forkBool(f.Nil, fr, pos) {
			f = nil
		}
	}
	if !ok || f == nil {
		p.goPanic(fr, pos, "call of nil function")
	}
	if f.Builtin != "" {
		return p.callBuiltinClosure(fr, f, args, pos)
	}
	return p.callFn(fr, f.Fn, args, f.Env, pos)
}

func (p *Path) callFn(fr *frame, fn *ssa.Function, args []Value, env []Value, pos token.Pos) Value {
	name := fn.String()
	if fn.Synthetic == "package initializer" && fr != nil {
		return nil // package initialisers are run by RunInit in dependency order
	}
	if repl, ok := p.E.overrideFn[fn]; ok && !p.inOverride[fn] {
		p.stubs[name+" => "+repl.String()] = true
		p.inOverride[fn] = true
		defer func() { delete(p.inOverride, fn) }()
		return p.callSSA(fr, repl, args, nil)
	}
	if ifn, ok := p.E.intrinsicFor(fn); ok {
		if _, isAPI := p.E.apiFuncs[fn]; isAPI && p.side != nil && !apiPure[fn.Name()] {
			panic(mergeAbort{"harness API call " + fn.Name()})
		}
		if _, isAPI := p.E.apiFuncs[fn]; !isAPI || !apiKeepsSymbolicNil[fn.Name()] {
			for i, a := range args {
				if iv, ok := a.(IfaceV); ok {
					if pv, ok := iv.V.(PtrV); ok && pv.Nil != nil {
						args[i] = IfaceV{T: iv.T, V: p.rp(fr, pv, pos)}
					}
					continue
				}
				args[i] = p.rv(fr, a, pos)
			}
		}
		return ifn(p, fr, fn, args, pos)
	}
	if fn.Blocks == nil {
		if p.inInit {
			p.note("init-skipped-call:" + name)
			return zeroResults(fn)
		}
		p.unsupported(fr, pos, "call of function without body "+name)
	}
	return p.callSSA(fr, fn, args, env)
}

func (p *Path) callSSA(caller *frame, fn *ssa.Function, args []Value, env []Value) Value {
	fr := &frame{p: p, fn: fn, caller: caller, env: make(map[ssa.Value]Value, 32)}
	if caller != nil {
		fr.depth = caller.depth + 1
		if fr.depth > p.E.Cfg.MaxDepth {
			p.abort("inconclusive", "call depth limit in "+fn.String())
		}
	}
	if len(args) != len(fn.Params) {
		panic(fmt.Sprintf("engine: arg count mismatch calling %s: %d vs %d", fn, len(args), len(fn.Params)))
	}
	for i, par := range fn.Params {
		fr.env[par] = args[i]
	}
	for i, fv := range fn.FreeVars {
		fr.env[fv] = env[i]
	}
	if fn.Pkg != nil || fn.Origin() != nil || true {
		p.funcs[fn.String()] = true
	}
	fr.block = fn.Blocks[0]
	for fr.block != nil {
		p.runFrame(fr)
	}
	return fr.result
}

func (p *Path) runFrame(fr *frame) {
	defer func() {
		if fr.block == nil {
			return // normal return
		}
		r := recover()
		if r == nil {
			return
		}
		if _, ok := r.(goPanic); !ok {
			panic(r) // engine error or path abort: propagate untouched
		}
		fr.panicking = true
		fr.panicV = r
		p.runDefers(fr)
		// recovered
		fr.block = fr.fn.Recover
		if fr.block == nil {
			// no named results to reload: return zero results
			fr.result = zeroResults(fr.fn)
		}
	}()
	for {
		blk := fr.block
		if fr.visits == nil {
			fr.visits = map[int]int{}
		}
		fr.visits[blk.Index]++
		if fr.visits[blk.Index] > p.E.Cfg.MaxBlockVisits {
			p.abort("inconclusive", fmt.Sprintf("unwinding limit: block %d of %s visited more than %d times", blk.Index, fr.fn, p.E.Cfg.MaxBlockVisits))
		}
		nphi := p.assignPhis(fr, blk)
		jumped := false
		for _, in := range blk.Instrs[nphi:] {
			p.steps++
			if p.steps > p.E.Cfg.MaxSteps {
				p.abort("inconclusive", "step budget exhausted")
			}
			switch p.visit(fr, in) {
			case kNext:
			case kJump:
				jumped = true
			case kReturn:
				return
			}
			if jumped {
				break
			}
		}
		if !jumped {
			panic("engine: block fell through: " + fr.fn.String())
		}
	}
}

// assignPhis evaluates the phi nodes of blk in parallel (or installs the values of a merge).
func (p *Path) assignPhis(fr *frame, blk *ssa.BasicBlock) int {
	nphi := 0
	if fr.hasMergedPhis {
		fr.hasMergedPhis = false
		for _, in := range blk.Instrs {
			phi, ok := in.(*ssa.Phi)
			if !ok {
				break
			}
			fr.env[phi] = fr.mergedPhis[nphi]
			nphi++
		}
		fr.mergedPhis = nil
		return nphi
	}
	var phiVals []Value
	for _, in := range blk.Instrs {
		phi, ok := in.(*ssa.Phi)
		if !ok {
			break
		}
		nphi++
		idx := -1
		for i, pred := range blk.Preds {
			if pred == fr.prev {
				idx = i
				break
			}
		}
		phiVals = append(phiVals, fr.get(phi.Edges[idx]))
	}
	for i := 0; i < nphi; i++ {
		fr.env[blk.Instrs[i].(*ssa.Phi)] = phiVals[i]
	}
	return nphi
}

func zeroResults(fn *ssa.Function) Value {
	res := fn.Signature.Results()
	switch res.Len() {
	case 0:
		return nil
	case 1:
		return Zero(res.At(0).Type())
	}
	return Zero(res)
}

func (p *Path) runDefers(fr *frame) {
	for len(fr.defers) > 0 {
		d := fr.defers[len(fr.defers)-1]
		fr.defers = fr.defers[:len(fr.defers)-1]
		p.runDefer(fr, d)
	}
	if fr.panicking {
		panic(fr.panicV) // not recovered: re-panic
	}
}

func (p *Path) runDefer(fr *frame, d deferred) {
	ok := false
	defer func() {
		if ok {
			return
		}
		r := recover()
		if _, isGo := r.(goPanic); isGo {
			// a panic inside a deferred call replaces the current panic
			fr.panicking = true
			fr.panicV = r
			return
		}
		panic(r)
	}()
	p.callValue(fr, d.fn, d.args, d.site.Pos())
	ok = true
}

type cont int

const (
	kNext cont = iota
	kJump
	kReturn
)

func (p *Path) visit(fr *frame, instr ssa.Instruction) (res cont) {
	defer func() {
		if r := recover(); r != nil {
			if s, ok := r.(string); ok && strings.HasPrefix(s, "getPath") {
				panic(fmt.Sprintf("%s | executing %s at %s in %s", s, instr.String(), p.where(fr, instr.Pos()), fr.fn.String()))
			}
			panic(r)
		}
	}()
	switch in := instr.(type) {
	case *ssa.DebugRef:
	case *ssa.UnOp:
		fr.env[in] = p.unop(fr, in)
	case *ssa.BinOp:
		fr.env[in] = p.binop(fr, in.Op, in.X.Type(), fr.get(in.X), fr.get(in.Y), in.Y.Type(), in.Pos())
	case *ssa.Call:
		fr.env[in] = p.doCall(fr, in.Common(), in.Pos())
	case *ssa.ChangeInterface:
		fr.env[in] = fr.get(in.X)
	case *ssa.ChangeType:
		fr.env[in] = fr.get(in.X)
	case *ssa.Convert:
		fr.env[in] = p.convert(fr, in.X.Type(), in.Type(), fr.get(in.X), in.Pos())
	case *ssa.MultiConvert:
		fr.env[in] = p.convert(fr, in.X.Type(), in.Type(), fr.get(in.X), in.Pos())
	case *ssa.SliceToArrayPointer:
		s := fr.get(in.X).(SliceV)
		_ = s
		n := int(in.Type().(*types.Pointer).Elem().Underlying().(*types.Array).Len())
		if s.Len < n {
			p.goPanic(fr, in.Pos(), "slice to array pointer: length too short")
		}
		if s.IsNil() {
			fr.env[in] = PtrV{}
		} else {
			// pointer to a sub-array: we only support whole backing arrays with offset 0 and
			// matching length, otherwise copy semantic would be wrong.
			if s.Off == 0 && len(s.O.V.(*ArrayV).E) == n {
				fr.env[in] = PtrV{O: s.O}
			} else {
				p.unsupported(fr, in.Pos(), "slice-to-array-pointer of a sub-slice")
			}
		}
	case *ssa.MakeInterface:
		fr.env[in] = IfaceV{T: in.X.Type(), V: fr.get(in.X)}
	case *ssa.Extract:
		fr.env[in] = fr.get(in.Tuple).(TupleV)[in.Index]
	case *ssa.Slice:
		fr.env[in] = p.sliceOp(fr, in)
	case *ssa.Return:
		switch len(in.Results) {
		case 0:
		case 1:
			fr.result = fr.get(in.Results[0])
		default:
			res := make(TupleV, len(in.Results))
			for i, r := range in.Results {
				res[i] = fr.get(r)
			}
			fr.result = res
		}
		fr.block = nil
		return kReturn
	case *ssa.RunDefers:
		p.runDefers(fr)
	case *ssa.Panic:
		v := fr.get(in.X)
		panic(goPanic{V: v, Msg: "explicit panic: " + p.describe(v), Where: p.where(fr, in.Pos())})
	case *ssa.Send:
		// buffered channel, single thread: a send appends; a full (or nil) channel would block forever
		ch := fr.get(in.Chan).(ChanV)
		st := p.chans[ch.ID]
		if st == nil || len(st.buf) >= st.cap {
			p.unsupported(fr, in.Pos(), "send on a full, unbuffered or nil channel (would block; no scheduler is modelled)")
		}
		p.sideMods++
		st.buf = append(st.buf, fr.get(in.X))
	case *ssa.Store:
		ptr := p.rp(fr, fr.get(in.Addr), in.Pos())
		if ptr.IsNil() {
			p.goPanic(fr, in.Pos(), "nil pointer dereference (store)")
		}
		ptr.Store(fr.get(in.Val))
	case *ssa.If:
		c := fr.get(in.Cond).(*Term)
		succ := 1
		ipos := in.Cond.Pos()
		if ipos == token.NoPos && !c.c {
			for k := len(fr.block.Instrs) - 1; k >= 0 && ipos == token.NoPos; k-- {
				ipos = fr.block.Instrs[k].Pos()
			}
		}
		switch p.branch(fr, in, c, ipos) {
		case brTrue:
			succ = 0
		case brFalse:
		case brMergedJoin:
			return kJump
		case brMergedReturn:
			return kReturn
		}
		fr.prev, fr.block = fr.block, fr.block.Succs[succ]
		return kJump
	case *ssa.Jump:
		fr.prev, fr.block = fr.block, fr.block.Succs[0]
		return kJump
	case *ssa.Defer:
		fn, args := p.prepareCall(fr, in.Common(), in.Pos())
		fr.defers = append(fr.defers, deferred{fn, args, in})
	case *ssa.Go:
		p.events = append(p.events, "go-statement skipped at "+p.where(fr, in.Pos()))
		p.note("go-statement-skipped:" + p.where(fr, in.Pos()))
	case *ssa.MakeChan:
		p.nObj++
		sz := fr.get(in.Size).(*Term)
		if !sz.c {
			p.unsupported(fr, in.Pos(), "channel with symbolic capacity")
		}
		p.chans[p.nObj] = &chanState{cap: int(sz.u)}
		p.sideMods++
		fr.env[in] = ChanV{ID: p.nObj}
	case *ssa.Alloc:
		t := in.Type().(*types.Pointer).Elem()
		fr.env[in] = PtrV{O: p.newObj(Zero(t), t, in.Comment)}
	case *ssa.MakeSlice:
		n := p.concInt(fr, fr.get(in.Len).(*Term), in.Len.Type(), 0, p.E.Cfg.MaxSliceLen, in.Pos(), "make len")
		c := p.concInt(fr, fr.get(in.Cap).(*Term), in.Cap.Type(), n, max(n, p.E.Cfg.MaxSliceLen), in.Pos(), "make cap")
		et := in.Type().Underlying().(*types.Slice).Elem()
		arr := make([]Value, c)
		z := Zero(et)
		for i := range arr {
			arr[i] = z
		}
		fr.env[in] = SliceV{O: p.newObj(&ArrayV{E: arr, Mut: true}, nil, "makeslice"), Off: 0, Len: n, Cap: c}
	case *ssa.MakeMap:
		p.nObj++
		fr.env[in] = &MapV{ID: p.nObj}
	case *ssa.Range:
		fr.env[in] = p.rangeIter(fr, fr.get(in.X), in.X.Type(), in.Pos())
	case *ssa.Next:
		fr.env[in] = p.nextIter(fr, fr.get(in.Iter), in)
	case *ssa.FieldAddr:
		ptr := p.rp(fr, fr.get(in.X), in.Pos())
		if ptr.IsNil() {
			p.goPanic(fr, in.Pos(), "nil pointer dereference (field "+fieldName(in.X.Type(), in.Field)+")")
		}
		fr.env[in] = ptr.Sub(in.Field)
	case *ssa.Field:
		fr.env[in] = fr.get(in.X).(*StructV).F[in.Field]
	case *ssa.IndexAddr:
		fr.env[in] = p.indexAddr(fr, in)
	case *ssa.Index:
		fr.env[in] = p.index(fr, in)
	case *ssa.Lookup:
		fr.env[in] = p.lookup(fr, in)
	case *ssa.MapUpdate:
		m := fr.get(in.Map).(*MapV)
		if m == nil {
			p.goPanic(fr, in.Pos(), "assignment to entry in nil map")
		}
		p.mapSet(fr, m, fr.get(in.Key), fr.get(in.Value), in.Pos())
	case *ssa.TypeAssert:
		fr.env[in] = p.typeAssert(fr, in)
	case *ssa.MakeClosure:
		var env []Value
		for _, b := range in.Bindings {
			env = append(env, fr.get(b))
		}
		fr.env[in] = &FuncV{Fn: in.Fn.(*ssa.Function), Env: env}
	case *ssa.Phi:
		panic("engine: phi in the middle of a block")
	case *ssa.Select:
		p.unsupported(fr, in.Pos(), "select")
	default:
		p.unsupported(fr, instr.Pos(), fmt.Sprintf("instruction %T", instr))
	}
	return kNext
}

func fieldName(ptrT types.Type, i int) string {
	if pt, ok := ptrT.Underlying().(*types.Pointer); ok {
		if st, ok := pt.Elem().Underlying().(*types.Struct); ok && i < st.NumFields() {
			return st.Field(i).Name()
		}
	}
	return fmt.Sprint(i)
}

func (p *Path) prepareCall(fr *frame, call *ssa.CallCommon, pos token.Pos) (Value, []Value) {
	var args []Value
	var fn Value
	if call.Method == nil {
		fn = fr.get(call.Value)
	} else {
		recv := fr.get(call.Value).(IfaceV)
		if recv.T == nil {
			if p.inInit {
				p.note("init-skipped-invoke-on-nil:" + call.Method.Name())
				return &FuncV{Builtin: "zero", Data: []Value{Zero(call.Signature().Results())}}, nil
			}
			p.goPanic(fr, pos, "nil pointer dereference (method "+call.Method.Name()+" on nil interface)")
		}
		if ov, isOp := recv.V.(OpaqueV); isOp && recv.T == p.E.opaqueErrT && ov.Kind == "logger" && call.Signature().Results().Len() == 0 {
			// methods of the no-op logger (Trace/Debug/Info/Warn/Error/Crit): nothing happens
			p.stub("package idena-go/log => no-op")
			fn = &FuncV{Builtin: "zero", Data: []Value{Zero(call.Signature().Results())}}
			return fn, nil
		}
		if recv.T == p.E.opaqueErrT {
			fn = &FuncV{Builtin: "opaque:" + call.Method.Name(), Data: []Value{recv.V}}
		} else {
			m := p.E.P.Prog.LookupMethod(recv.T, call.Method.Pkg(), call.Method.Name())
			if m == nil {
				p.unsupported(fr, pos, fmt.Sprintf("method %s not found on %v", call.Method.Name(), recv.T))
			}
			fn = &FuncV{Fn: m}
			args = append(args, recv.V)
		}
	}
	for _, a := range call.Args {
		args = append(args, fr.get(a))
	}
	return fn, args
}

func (p *Path) doCall(fr *frame, call *ssa.CallCommon, pos token.Pos) Value {
	if b, ok := call.Value.(*ssa.Builtin); ok && call.Method == nil {
		var args []Value
		for _, a := range call.Args {
			args = append(args, fr.get(a))
		}
		return p.builtin(fr, b, call, args, pos)
	}
	fn, args := p.prepareCall(fr, call, pos)
	return p.callValue(fr, fn, args, pos)
}

// ---- slices, arrays, strings ----

// concInt makes an int-typed term concrete (forking over feasible values in [lo,hi]).
func (p *Path) concInt(fr *frame, t *Term, typ types.Type, lo, hi int, pos token.Pos, what string) int {
	if t.c {
		if isSigned(typ) {
			return int(sext64(t.u, t.S.W))
		}
		return int(t.u)
	}
	w := t.S.W
	inb := p.tb.And(p.tb.BVLe(BVConst(uint64(lo), w), t, true), p.tb.BVLe(t, BVConst(uint64(hi), w), true))
	if !p.forkBool(inb, fr, pos) {
		p.abort("inconclusive", fmt.Sprintf("symbolic %s outside [%d,%d] at %s", what, lo, hi, p.where(fr, pos)))
	}
	return int(p.concretize(t, true, fr, pos))
}

func (p *Path) sliceOp(fr *frame, in *ssa.Slice) Value {
	x := p.rv(fr, fr.get(in.X), in.Pos())
	var lo, hi, mx = -1, -1, -1
	bound := func(v ssa.Value, lim int) int {
		t := fr.get(v).(*Term)
		if t.c {
			return int(sext64(t.u, t.S.W))
		}
		// symbolic bound: in range or panic
		w := t.S.W
		inb := p.tb.And(p.tb.BVLe(BVConst(0, w), t, true), p.tb.BVLe(t, BVConst(uint64(lim), w), true))
		if !p.forkBool(inb, fr, in.Pos()) {
			p.goPanic(fr, in.Pos(), "slice bounds out of range")
		}
		return p.concInt(fr, t, v.Type(), 0, lim, in.Pos(), "slice bound")
	}
	switch s := x.(type) {
	case StrV:
		n := len(s.B)
		lo, hi = 0, n
		if in.Low != nil {
			lo = bound(in.Low, n)
		}
		if in.High != nil {
			hi = bound(in.High, n)
		}
		if lo < 0 || hi > n || lo > hi {
			p.goPanic(fr, in.Pos(), "slice bounds out of range (string)")
		}
		return StrV{s.B[lo:hi]}
	case SliceV:
		lo, hi, mx = 0, s.Len, s.Cap
		if in.Low != nil {
			lo = bound(in.Low, s.Cap)
		}
		if in.High != nil {
			hi = bound(in.High, s.Cap)
		}
		if in.Max != nil {
			mx = bound(in.Max, s.Cap)
		}
		if lo < 0 || hi > s.Cap || lo > hi || mx > s.Cap || hi > mx {
			p.goPanic(fr, in.Pos(), fmt.Sprintf("slice bounds out of range [%d:%d:%d] with capacity %d", lo, hi, mx, s.Cap))
		}
		if s.IsNil() {
			return SliceV{}
		}
		return SliceV{O: s.O, Off: s.Off + lo, Len: hi - lo, Cap: mx - lo}
	case PtrV: // *array
		if s.IsNil() {
			p.goPanic(fr, in.Pos(), "nil pointer dereference (slice of nil array pointer)")
		}
		arr := s.Load().(*ArrayV)
		n := len(arr.E)
		lo, hi, mx = 0, n, n
		if in.Low != nil {
			lo = bound(in.Low, n)
		}
		if in.High != nil {
			hi = bound(in.High, n)
		}
		if in.Max != nil {
			mx = bound(in.Max, n)
		}
		if lo < 0 || hi > n || lo > hi || mx > n || hi > mx {
			p.goPanic(fr, in.Pos(), "slice bounds out of range (array)")
		}
		// the slice must alias the array: make the array object addressable as backing store
		if len(s.Path) == 0 {
			if !arr.Mut && len(arr.E) > 64 {
				// large array used as slice backing store: switch to in-place updates
				e := make([]Value, len(arr.E))
				copy(e, arr.E)
				s.O.V = &ArrayV{E: e, Mut: true, born: s.O.ID}
			}
			return SliceV{O: s.O, Off: lo, Len: hi - lo, Cap: mx - lo}
		}
		// array embedded in a larger object: aliasing through a sub-path is represented by a view object
		return SliceV{O: p.viewObj(s), Off: lo, Len: hi - lo, Cap: mx - lo}
	}
	panic(fmt.Sprintf("engine: slice of %T", x))
}

// viewObj: arrays embedded inside structs that get sliced. We cannot alias a sub-path with a
// plain Obj, so embedded arrays that are sliced are handled by copy-in/copy-out being unsound;
// instead we mark the path inconclusive unless the view was only read. To stay sound we
// implement views as objects that forward loads/stores to the parent path.
func (p *Path) viewObj(ptr PtrV) *Obj {
	key := viewKey(ptr)
	if o, ok := p.views[key]; ok {
		return o
	}
	o := &Obj{ID: -1, Name: "view", V: nil, owner: p}
	p.sideMods++
	p.nObj++
	o.ID = p.nObj
	p.views[key] = o
	p.viewOf[o] = ptr
	return o
}

func viewKey(ptr PtrV) string {
	return fmt.Sprintf("%p%v", ptr.O, ptr.Path)
}

// arr returns the backing array value of a slice object, resolving views.
func (p *Path) backing(o *Obj) *ArrayV {
	if par, ok := p.viewOf[o]; ok {
		return par.Load().(*ArrayV)
	}
	return o.V.(*ArrayV)
}

func (p *Path) elemPtr(o *Obj, i int) PtrV {
	if par, ok := p.viewOf[o]; ok {
		return par.Sub(i)
	}
	return PtrV{O: o, Path: []int{i}}
}

func (p *Path) sliceGet(s SliceV, i int) Value { return p.backing(s.O).E[s.Off+i] }
func (p *Path) sliceSet(s SliceV, i int, v Value) {
	p.elemPtr(s.O, s.Off+i).Store(v)
}

func (p *Path) indexTerm(fr *frame, t *Term, typ types.Type, n int, pos token.Pos) int {
	if t.c {
		var v int64
		if isSigned(typ) {
			v = sext64(t.u, t.S.W)
		} else {
			v = int64(t.u)
			if t.u > 1<<62 {
				v = -1
			}
		}
		if v < 0 || v >= int64(n) {
			p.goPanic(fr, pos, fmt.Sprintf("index out of range [%d] with length %d", v, n))
		}
		return int(v)
	}
	w := t.S.W
	inb := p.tb.BVLt(t, BVConst(uint64(n), w), false) // unsigned compare covers negatives
	if n == 0 || !p.forkBool(inb, fr, pos) {
		p.goPanic(fr, pos, fmt.Sprintf("index out of range [symbolic] with length %d", n))
	}
	return p.concInt(fr, t, typ, 0, n-1, pos, "index")
}

func (p *Path) indexAddr(fr *frame, in *ssa.IndexAddr) Value {
	x := p.rv(fr, fr.get(in.X), in.Pos())
	idx := fr.get(in.Index).(*Term)
	switch s := x.(type) {
	case SliceV:
		i := p.indexTerm(fr, idx, in.Index.Type(), s.Len, in.Pos())
		return p.elemPtr(s.O, s.Off+i)
	case PtrV:
		if s.IsNil() {
			p.goPanic(fr, in.Pos(), "nil pointer dereference (index of nil array pointer)")
		}
		n := int(in.X.Type().Underlying().(*types.Pointer).Elem().Underlying().(*types.Array).Len())
		i := p.indexTerm(fr, idx, in.Index.Type(), n, in.Pos())
		return s.Sub(i)
	}
	panic(fmt.Sprintf("engine: indexaddr of %T", x))
}

func (p *Path) index(fr *frame, in *ssa.Index) Value {
	x := fr.get(in.X)
	idx := fr.get(in.Index).(*Term)
	switch s := x.(type) {
	case *ArrayV:
		if !idx.c {
			if r, ok := p.iteSelect(s.E, idx); ok {
				// bounds check
				inb := p.tb.BVLt(idx, BVConst(uint64(len(s.E)), idx.S.W), false)
				if !p.forkBool(inb, fr, in.Pos()) {
					p.goPanic(fr, in.Pos(), "index out of range [symbolic]")
				}
				return r
			}
		}
		i := p.indexTerm(fr, idx, in.Index.Type(), len(s.E), in.Pos())
		return s.E[i]
	case StrV:
		if !idx.c {
			vals := make([]Value, len(s.B))
			for i, b := range s.B {
				vals[i] = b
			}
			if r, ok := p.iteSelect(vals, idx); ok {
				inb := p.tb.BVLt(idx, BVConst(uint64(len(s.B)), idx.S.W), false)
				if !p.forkBool(inb, fr, in.Pos()) {
					p.goPanic(fr, in.Pos(), "index out of range [symbolic]")
				}
				return r
			}
		}
		i := p.indexTerm(fr, idx, in.Index.Type(), len(s.B), in.Pos())
		return s.B[i]
	}
	panic(fmt.Sprintf("engine: index of %T", x))
}

// iteSelect builds ite(idx==0,e0, ite(idx==1,e1,...)) for scalar elements.
func (p *Path) iteSelect(es []Value, idx *Term) (Value, bool) {
	if len(es) == 0 || len(es) > 64 {
		return nil, false
	}
	for _, e := range es {
		if _, ok := e.(*Term); !ok {
			return nil, false
		}
	}
	r := es[len(es)-1].(*Term)
	for i := len(es) - 2; i >= 0; i-- {
		r = p.tb.Ite(p.tb.Eq(idx, BVConst(uint64(i), idx.S.W)), es[i].(*Term), r)
	}
	return r, true
}

// ---- type assertion ----

func (p *Path) typeAssert(fr *frame, in *ssa.TypeAssert) Value {
	v := fr.get(in.X).(IfaceV)
	ok := false
	var res Value
	if it, isI := in.AssertedType.Underlying().(*types.Interface); isI {
		if v.T != nil {
			if v.T == p.E.opaqueErrT {
				ok = it.NumMethods() == 0 || (it.NumMethods() == 1 && it.Method(0).Name() == "Error")
			} else {
				ok = types.Implements(v.T, it)
			}
		}
		res = v
		if !ok {
			res = IfaceV{}
		}
	} else {
		ok = v.T != nil && types.Identical(v.T, in.AssertedType)
		if ok {
			res = v.V
		} else {
			res = Zero(in.AssertedType)
		}
	}
	if in.CommaOk {
		return TupleV{res, BoolT(ok)}
	}
	if !ok {
		p.goPanic(fr, in.Pos(), fmt.Sprintf("interface conversion: interface is %v, not %v", v.T, in.AssertedType))
	}
	return res
}

// ---- unary ----

func (p *Path) unop(fr *frame, in *ssa.UnOp) Value {
	x := fr.get(in.X)
	switch in.Op {
	case token.MUL: // load
		ptr := p.rp(fr, x, in.Pos())
		if ptr.IsNil() {
			p.goPanic(fr, in.Pos(), "nil pointer dereference (load)")
		}
		return ptr.Load()
	case token.NOT:
		return p.tb.Not(x.(*Term))
	case token.SUB:
		t := x.(*Term)
		if t.S.K == KFP {
			return p.tb.FPNeg(t)
		}
		return p.tb.BVNeg(t)
	case token.XOR:
		return p.tb.BVNot(x.(*Term))
	case token.ARROW:
		ch := x.(ChanV)
		st := p.chans[ch.ID]
		if st == nil || len(st.buf) == 0 {
			p.unsupported(fr, in.Pos(), "receive from an empty channel (would block; no scheduler is modelled)")
		}
		p.sideMods++
		v := st.buf[0]
		st.buf = st.buf[1:]
		if in.CommaOk {
			return TupleV{v, tTrue}
		}
		return v
	}
	panic(fmt.Sprintf("engine: unop %v", in.Op))
}

// ---- helper: describe values for messages ----

func (p *Path) describe(v Value) string {
	switch a := v.(type) {
	case nil:
		return "nil"
	case *Term:
		return a.s
	case StrV:
		if s, ok := a.Concrete(); ok {
			return fmt.Sprintf("%q", s)
		}
		return fmt.Sprintf("string[%d]", len(a.B))
	case IfaceV:
		if a.T == nil {
			return "nil"
		}
		return fmt.Sprintf("%v(%s)", a.T, p.describe(a.V))
	case OpaqueV:
		s, _ := a.Msg.Concrete()
		return a.Kind + ":" + s
	case PtrV:
		if a.O == nil {
			return "nil"
		}
		// error structs etc.
		return "&" + p.describe(a.Load())
	case *StructV:
		parts := []string{}
		for i, f := range a.F {
			if i > 3 {
				parts = append(parts, "...")
				break
			}
			parts = append(parts, p.describe(f))
		}
		return "{" + strings.Join(parts, " ") + "}"
	case BigV:
		return a.T.s
	}
	return fmt.Sprintf("%T", v)
}

var _ = big.NewInt
