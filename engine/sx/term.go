package sx

import (
	"fmt"
	"math"
	"math/big"
	"strings"
)

type Kind uint8

const (
	KBool Kind = iota
	KBV
	KInt
	KFP
)

type Sort struct {
	K Kind
	W int // bit width for BV and FP (32/64)
}

var (
	SBool = Sort{KBool, 0}
	SInt  = Sort{KInt, 0}
)

func BV(w int) Sort { return Sort{KBV, w} }
func FP(w int) Sort { return Sort{KFP, w} }

func (s Sort) SMT() string {
	switch s.K {
	case KBool:
		return "Bool"
	case KBV:
		return fmt.Sprintf("(_ BitVec %d)", s.W)
	case KInt:
		return "Int"
	case KFP:
		if s.W == 32 {
			return "(_ FloatingPoint 8 24)"
		}
		return "(_ FloatingPoint 11 53)"
	}
	panic("sort")
}

// Term is an SMT term together with its constant value when known.
type Term struct {
	S Sort
	s string
	c bool
	u uint64
	b *big.Int
	f float64
	// three-way comparison result (-1/0/+1 as BV64): lt / gt are the conditions for -1 / +1.
	triLt, triGt *Term
	// Int shadow: an Int-sorted term equal to the unsigned (ivU) reading of this bit-vector.
	ivU *Term
	// ... and to the signed (ivS) reading
	ivS *Term
	ivSMin bool // the signed value is known to be >= 0 (so subtracting a small constant cannot wrap)
	// back-pointer of an Int term that is the signed / unsigned reading of a 64-bit vector: converting it
	// back (big.Int.Int64 / Uint64) yields that vector instead of an int2bv term
	bvS, bvU *Term
}

func (t *Term) String() string { return t.s }
func (t *Term) IsConst() bool  { return t.c }
func (t *Term) Uint() uint64   { return t.u }
func (t *Term) BoolVal() bool  { return t.u != 0 }

func mask(w int) uint64 {
	if w >= 64 {
		return ^uint64(0)
	}
	return (uint64(1) << uint(w)) - 1
}

func sext64(u uint64, w int) int64 {
	if w >= 64 {
		return int64(u)
	}
	if u&(1<<uint(w-1)) != 0 {
		return int64(u | ^mask(w))
	}
	return int64(u)
}

var (
	tTrue  = &Term{S: SBool, s: "true", c: true, u: 1}
	tFalse = &Term{S: SBool, s: "false", c: true, u: 0}
)

func BoolT(b bool) *Term {
	if b {
		return tTrue
	}
	return tFalse
}

func BVConst(v uint64, w int) *Term {
	v &= mask(w)
	return &Term{S: BV(w), s: fmt.Sprintf("(_ bv%d %d)", v, w), c: true, u: v}
}

func IntConst(v *big.Int) *Term {
	var s string
	if v.Sign() < 0 {
		s = "(- " + new(big.Int).Neg(v).String() + ")"
	} else {
		s = v.String()
	}
	return &Term{S: SInt, s: s, c: true, b: new(big.Int).Set(v)}
}

func IntConst64(v int64) *Term { return IntConst(big.NewInt(v)) }

func FPConst(f float64, w int) *Term {
	var s string
	if w == 32 {
		bits := math.Float32bits(float32(f))
		s = fmt.Sprintf("(fp #b%01b #b%08b #b%023b)", bits>>31, (bits>>23)&0xff, bits&0x7fffff)
		f = float64(float32(f))
	} else {
		bits := math.Float64bits(f)
		s = fmt.Sprintf("(fp #b%01b #b%011b #b%052b)", bits>>63, (bits>>52)&0x7ff, bits&0xfffffffffffff)
	}
	return &Term{S: FP(w), s: s, c: true, f: f}
}

// TB builds terms; long terms are named with define-fun in the owning solver context.
type TB struct {
	defs    func(name string, s Sort, body string) // emit definition
	ndef    int
	names   map[string]string
	MaxLen  int
	Created int
}

func (tb *TB) mk(s Sort, op string, args ...*Term) *Term {
	var sb strings.Builder
	sb.WriteByte('(')
	sb.WriteString(op)
	for _, a := range args {
		sb.WriteByte(' ')
		sb.WriteString(a.s)
	}
	sb.WriteByte(')')
	return tb.wrap(s, sb.String())
}

// wrapForce names a term regardless of its length.
func (tb *TB) wrapForce(a *Term) *Term {
	if tb.names == nil {
		tb.names = map[string]string{}
	}
	if name, ok := tb.names[a.s]; ok {
		c := *a
		c.s = name
		return &c
	}
	tb.ndef++
	name := fmt.Sprintf("d_%d", tb.ndef)
	tb.defs(name, a.S, a.s)
	tb.names[a.s] = name
	c := *a
	c.s = name
	return &c
}

func (tb *TB) wrap(s Sort, str string) *Term {
	tb.Created++
	ml := tb.MaxLen
	if ml == 0 {
		ml = 160
	}
	if len(str) > ml && tb.defs != nil && !strings.HasPrefix(str, "(not ") {
		// (negations are never named, so that Not(Not(x)) == x does not depend on term length)
		// hash-consed: structurally equal terms get the same name, so that string equality of terms
		// does not depend on naming counters
		if tb.names == nil {
			tb.names = map[string]string{}
		}
		if name, ok := tb.names[str]; ok {
			str = name
		} else {
			tb.ndef++
			name := fmt.Sprintf("d_%d", tb.ndef)
			tb.defs(name, s, str)
			tb.names[str] = name
			str = name
		}
	}
	return &Term{S: s, s: str}
}

// ---- Bool ----

func (tb *TB) Not(a *Term) *Term {
	if a.c {
		return BoolT(a.u == 0)
	}
	if !strings.HasPrefix(a.s, "(not ") && len(a.s) > 40 && tb.defs != nil && a.s[0] == '(' {
		// name the operand first: the negation then stays a short "(not d_k)"
		a = tb.wrapForce(a)
	}
	if strings.HasPrefix(a.s, "(not ") {
		// (not (not x)) = x  -- only when a was built by Not without wrapping
		inner := a.s[5 : len(a.s)-1]
		if balanced(inner) {
			return &Term{S: SBool, s: inner}
		}
	}
	return tb.mk(SBool, "not", a)
}

func balanced(s string) bool {
	d := 0
	for i := 0; i < len(s); i++ {
		switch s[i] {
		case '(':
			d++
		case ')':
			d--
			if d < 0 {
				return false
			}
		case ' ':
			if d == 0 {
				return false
			}
		}
	}
	return d == 0
}

func (tb *TB) And(a, b *Term) *Term {
	if a.c {
		if a.u == 0 {
			return tFalse
		}
		return b
	}
	if b.c {
		if b.u == 0 {
			return tFalse
		}
		return a
	}
	return tb.mk(SBool, "and", a, b)
}

func (tb *TB) Or(a, b *Term) *Term {
	if a.c {
		if a.u != 0 {
			return tTrue
		}
		return b
	}
	if b.c {
		if b.u != 0 {
			return tTrue
		}
		return a
	}
	return tb.mk(SBool, "or", a, b)
}

func (tb *TB) Implies(a, b *Term) *Term { return tb.Or(tb.Not(a), b) }

func (tb *TB) Ite(c, a, b *Term) *Term {
	if c.c {
		if c.u != 0 {
			return a
		}
		return b
	}
	if a.S != b.S {
		panic(fmt.Sprintf("ite sort mismatch %v %v", a.S, b.S))
	}
	if a.s == b.s {
		return a
	}
	if a.S.K == KBool {
		if a.c && b.c {
			if a.u != 0 {
				return c
			}
			return tb.Not(c)
		}
	}
	r := tb.mk(a.S, "ite", c, a, b)
	if a.S.K == KBV {
		// integer shadows survive a merge when both sides have one (constants have both readings)
		if a.ivS != nil || b.ivS != nil {
			if x, y := shadowS(a), shadowS(b); x != nil && y != nil {
				r.ivS = tb.Ite(c, x, y)
				r.ivSMin = (a.ivSMin || (a.c && sext64(a.u, a.S.W) >= 0)) && (b.ivSMin || (b.c && sext64(b.u, b.S.W) >= 0))
			}
		}
		if a.ivU != nil || b.ivU != nil {
			if x, y := shadowU(a), shadowU(b); x != nil && y != nil {
				r.ivU = tb.Ite(c, x, y)
			}
		}
	}
	return r
}

func (tb *TB) Eq(a, b *Term) *Term {
	if a.S != b.S {
		panic(fmt.Sprintf("eq sort mismatch %v %v (%s, %s)", a.S, b.S, a.s, b.s))
	}
	if a.c && b.c {
		switch a.S.K {
		case KBool, KBV:
			return BoolT(a.u == b.u)
		case KInt:
			return BoolT(a.b.Cmp(b.b) == 0)
		case KFP:
			return BoolT(a.f == b.f) // Go == semantics (NaN != NaN)
		}
	}
	if a.S.K == KFP {
		return tb.mk(SBool, "fp.eq", a, b)
	}
	if a.s == b.s {
		return tTrue
	}
	if a.S.K == KBV && (a.ivU != nil || b.ivU != nil) {
		if x, y := shadowU(a), shadowU(b); x != nil && y != nil {
			return tb.mk(SBool, "=", x, y)
		}
	}
	if a.S.K == KBV && (a.ivS != nil || b.ivS != nil) {
		if x, y := shadowS(a), shadowS(b); x != nil && y != nil {
			return tb.mk(SBool, "=", x, y)
		}
	}
	return tb.mk(SBool, "=", a, b)
}

// ---- BV ----

func (tb *TB) bvBin(op string, a, b *Term, f func(x, y uint64) uint64) *Term {
	if a.S != b.S {
		panic(fmt.Sprintf("bv sort mismatch %s: %v %v (%s, %s)", op, a.S, b.S, a.s, b.s))
	}
	if a.c && b.c && f != nil {
		return BVConst(f(a.u, b.u), a.S.W)
	}
	return tb.mk(a.S, op, a, b)
}

func (tb *TB) BVAdd(a, b *Term) *Term {
	if a.c && a.u == 0 {
		return b
	}
	if b.c && b.u == 0 {
		return a
	}
	return tb.bvBin("bvadd", a, b, func(x, y uint64) uint64 { return x + y })
}
func (tb *TB) BVSub(a, b *Term) *Term {
	if b.c && b.u == 0 {
		return a
	}
	if a.ivS != nil && b.c && a.S.W == 64 && sext64(b.u, 64) > 0 && sext64(b.u, 64) < 1<<32 && a.ivSMin {
		// x - small const with x known > MinInt64+2^32: no wrap
		r := tb.bvBin("bvsub", a, b, func(x, y uint64) uint64 { return x - y })
		c := *r
		c.ivS = tb.ISub(a.ivS, IntConst64(sext64(b.u, 64)))
		return &c
	}
	return tb.bvBin("bvsub", a, b, func(x, y uint64) uint64 { return x - y })
}
func (tb *TB) BVMul(a, b *Term) *Term {
	if a.c && a.u == 1 {
		return b
	}
	if b.c && b.u == 1 {
		return a
	}
	return tb.bvBin("bvmul", a, b, func(x, y uint64) uint64 { return x * y })
}
func (tb *TB) BVAnd(a, b *Term) *Term {
	return tb.bvBin("bvand", a, b, func(x, y uint64) uint64 { return x & y })
}
func (tb *TB) BVOr(a, b *Term) *Term {
	return tb.bvBin("bvor", a, b, func(x, y uint64) uint64 { return x | y })
}
func (tb *TB) BVXor(a, b *Term) *Term {
	return tb.bvBin("bvxor", a, b, func(x, y uint64) uint64 { return x ^ y })
}
func (tb *TB) BVNot(a *Term) *Term {
	if a.c {
		return BVConst(^a.u, a.S.W)
	}
	return tb.mk(a.S, "bvnot", a)
}
func (tb *TB) BVNeg(a *Term) *Term {
	if a.c {
		return BVConst(-a.u, a.S.W)
	}
	return tb.mk(a.S, "bvneg", a)
}

// Division: callers must have excluded a zero divisor.
func (tb *TB) BVDiv(a, b *Term, signed bool) *Term {
	w := a.S.W
	if a.c && b.c && b.u != 0 {
		if signed {
			x, y := sext64(a.u, w), sext64(b.u, w)
			if y == -1 {
				return BVConst(uint64(-x), w)
			}
			return BVConst(uint64(x/y), w)
		}
		return BVConst(a.u/b.u, w)
	}
	if signed {
		return tb.mk(a.S, "bvsdiv", a, b)
	}
	return tb.mk(a.S, "bvudiv", a, b)
}
func (tb *TB) BVRem(a, b *Term, signed bool) *Term {
	w := a.S.W
	if a.c && b.c && b.u != 0 {
		if signed {
			x, y := sext64(a.u, w), sext64(b.u, w)
			if y == -1 {
				return BVConst(0, w)
			}
			return BVConst(uint64(x%y), w)
		}
		return BVConst(a.u%b.u, w)
	}
	if signed {
		return tb.mk(a.S, "bvsrem", a, b)
	}
	return tb.mk(a.S, "bvurem", a, b)
}

// shift count already converted to a's width (saturating).
func (tb *TB) BVShl(a, n *Term) *Term {
	w := a.S.W
	if a.c && n.c {
		if n.u >= uint64(w) {
			return BVConst(0, w)
		}
		return BVConst(a.u<<n.u, w)
	}
	return tb.mk(a.S, "bvshl", a, n)
}
func (tb *TB) BVShr(a, n *Term, signed bool) *Term {
	w := a.S.W
	if a.c && n.c {
		if signed {
			x := sext64(a.u, w)
			if n.u >= uint64(w) {
				if x < 0 {
					return BVConst(^uint64(0), w)
				}
				return BVConst(0, w)
			}
			return BVConst(uint64(x>>n.u), w)
		}
		if n.u >= uint64(w) {
			return BVConst(0, w)
		}
		return BVConst(a.u>>n.u, w)
	}
	if signed {
		return tb.mk(a.S, "bvashr", a, n)
	}
	return tb.mk(a.S, "bvlshr", a, n)
}

func shadowU(t *Term) *Term {
	if t.ivU != nil {
		return t.ivU
	}
	if t.c {
		return IntConst(new(big.Int).SetUint64(t.u))
	}
	return nil
}

func shadowS(t *Term) *Term {
	if t.ivS != nil {
		return t.ivS
	}
	if t.c {
		return IntConst64(sext64(t.u, t.S.W))
	}
	return nil
}

func (tb *TB) BVLt(a, b *Term, signed bool) *Term {
	if a.S != b.S {
		panic(fmt.Sprintf("bvlt sort mismatch %v %v", a.S, b.S))
	}
	if signed && (a.ivS != nil || b.ivS != nil) {
		if x, y := shadowS(a), shadowS(b); x != nil && y != nil {
			return tb.ILt(x, y)
		}
	}
	if !signed && (a.ivU != nil || b.ivU != nil) {
		if x, y := shadowU(a), shadowU(b); x != nil && y != nil {
			return tb.ILt(x, y)
		}
	}
	if a.c && b.c {
		if signed {
			return BoolT(sext64(a.u, a.S.W) < sext64(b.u, a.S.W))
		}
		return BoolT(a.u < b.u)
	}
	if signed {
		return tb.mk(SBool, "bvslt", a, b)
	}
	return tb.mk(SBool, "bvult", a, b)
}
func (tb *TB) BVLe(a, b *Term, signed bool) *Term {
	if signed && (a.ivS != nil || b.ivS != nil) {
		if x, y := shadowS(a), shadowS(b); x != nil && y != nil {
			return tb.ILe(x, y)
		}
	}
	if !signed && (a.ivU != nil || b.ivU != nil) {
		if x, y := shadowU(a), shadowU(b); x != nil && y != nil {
			return tb.ILe(x, y)
		}
	}
	if a.c && b.c {
		if signed {
			return BoolT(sext64(a.u, a.S.W) <= sext64(b.u, a.S.W))
		}
		return BoolT(a.u <= b.u)
	}
	if signed {
		return tb.mk(SBool, "bvsle", a, b)
	}
	return tb.mk(SBool, "bvule", a, b)
}

// Resize converts a BV to width w; signed selects sign extension.
func (tb *TB) Resize(a *Term, w int, signed bool) *Term {
	aw := a.S.W
	if aw == w {
		return a
	}
	if a.c {
		if w < aw {
			return BVConst(a.u, w)
		}
		if signed {
			return BVConst(uint64(sext64(a.u, aw)), w)
		}
		return BVConst(a.u, w)
	}
	if w < aw {
		return tb.wrap(BV(w), fmt.Sprintf("((_ extract %d 0) %s)", w-1, a.s))
	}
	if signed {
		return tb.wrap(BV(w), fmt.Sprintf("((_ sign_extend %d) %s)", w-aw, a.s))
	}
	return tb.wrap(BV(w), fmt.Sprintf("((_ zero_extend %d) %s)", w-aw, a.s))
}

func (tb *TB) Extract(a *Term, hi, lo int) *Term {
	if a.c {
		return BVConst(a.u>>uint(lo), hi-lo+1)
	}
	return tb.wrap(BV(hi-lo+1), fmt.Sprintf("((_ extract %d %d) %s)", hi, lo, a.s))
}

func (tb *TB) Concat(hi, lo *Term) *Term {
	w := hi.S.W + lo.S.W
	if hi.c && lo.c && w <= 64 {
		return BVConst(hi.u<<uint(lo.S.W)|lo.u, w)
	}
	return tb.mk(BV(w), "concat", hi, lo)
}

// ---- Int (mathematical integers; used for math/big) ----

func (tb *TB) IAdd(a, b *Term) *Term {
	if a.c && b.c {
		return IntConst(new(big.Int).Add(a.b, b.b))
	}
	if a.c && a.b.Sign() == 0 {
		return b
	}
	if b.c && b.b.Sign() == 0 {
		return a
	}
	return tb.mk(SInt, "+", a, b)
}
func (tb *TB) ISub(a, b *Term) *Term {
	if a.c && b.c {
		return IntConst(new(big.Int).Sub(a.b, b.b))
	}
	if b.c && b.b.Sign() == 0 {
		return a
	}
	if a.s == b.s {
		return IntConst64(0)
	}
	return tb.mk(SInt, "-", a, b)
}
func (tb *TB) IMul(a, b *Term) *Term {
	if a.c && b.c {
		return IntConst(new(big.Int).Mul(a.b, b.b))
	}
	if a.c && a.b.Sign() == 0 || b.c && b.b.Sign() == 0 {
		return IntConst64(0)
	}
	if a.c && a.b.IsInt64() && a.b.Int64() == 1 {
		return b
	}
	if b.c && b.b.IsInt64() && b.b.Int64() == 1 {
		return a
	}
	return tb.mk(SInt, "*", a, b)
}
func (tb *TB) INeg(a *Term) *Term {
	if a.c {
		return IntConst(new(big.Int).Neg(a.b))
	}
	return tb.mk(SInt, "-", a)
}
func (tb *TB) IAbs(a *Term) *Term {
	if a.c {
		return IntConst(new(big.Int).Abs(a.b))
	}
	return tb.mk(SInt, "abs", a)
}

// IQuo is Go's truncated division (big.Int.Quo); divisor known non-zero.
func (tb *TB) IQuo(a, b *Term) *Term {
	if a.c && b.c && b.b.Sign() != 0 {
		return IntConst(new(big.Int).Quo(a.b, b.b))
	}
	// trunc(a/b) = sign * (|a| div |b|)
	q := tb.mk(SInt, "div", tb.IAbs(a), tb.IAbs(b))
	neg := tb.mk(SBool, "xor", tb.ILt(a, IntConst64(0)), tb.ILt(b, IntConst64(0)))
	return tb.Ite(neg, tb.INeg(q), q)
}

// IRem is Go's truncated remainder (big.Int.Rem).
func (tb *TB) IRem(a, b *Term) *Term {
	if a.c && b.c && b.b.Sign() != 0 {
		return IntConst(new(big.Int).Rem(a.b, b.b))
	}
	r := tb.mk(SInt, "mod", tb.IAbs(a), tb.IAbs(b))
	return tb.Ite(tb.ILt(a, IntConst64(0)), tb.INeg(r), r)
}

// IDiv/IMod are Euclidean (big.Int.Div / Mod) = SMT-LIB div/mod.
func (tb *TB) IDiv(a, b *Term) *Term {
	if a.c && b.c && b.b.Sign() != 0 {
		return IntConst(new(big.Int).Div(a.b, b.b))
	}
	return tb.mk(SInt, "div", a, b)
}
func (tb *TB) IMod(a, b *Term) *Term {
	if a.c && b.c && b.b.Sign() != 0 {
		return IntConst(new(big.Int).Mod(a.b, b.b))
	}
	return tb.mk(SInt, "mod", a, b)
}
func (tb *TB) ILt(a, b *Term) *Term {
	if a.c && b.c {
		return BoolT(a.b.Cmp(b.b) < 0)
	}
	return tb.mk(SBool, "<", a, b)
}
func (tb *TB) ILe(a, b *Term) *Term {
	if a.c && b.c {
		return BoolT(a.b.Cmp(b.b) <= 0)
	}
	return tb.mk(SBool, "<=", a, b)
}

// BV2Int converts a bit-vector to an Int (signed or unsigned reading).
func (tb *TB) BV2Int(a *Term, signed bool) *Term {
	w := a.S.W
	if a.c {
		if signed {
			return IntConst64(sext64(a.u, w))
		}
		return IntConst(new(big.Int).SetUint64(a.u))
	}
	if a.ivU != nil && !signed {
		return a.ivU
	}
	if a.ivS != nil && signed {
		return a.ivS
	}
	n := tb.mk(SInt, "bv2nat", a)
	if !signed {
		if w == 64 && n.bvU == nil {
			c := *n
			c.bvU = a
			return &c
		}
		return n
	}
	two := new(big.Int).Lsh(big.NewInt(1), uint(w))
	neg := tb.BVLt(a, BVConst(0, w), true)
	r := tb.Ite(neg, tb.ISub(n, IntConst(two)), n)
	if w == 64 && !r.c {
		c := *r
		c.bvS = a
		return &c
	}
	return r
}

// Int2BV converts an Int to a bit-vector modulo 2^w.
func (tb *TB) Int2BV(a *Term, w int) *Term {
	if a.c {
		m := new(big.Int).And(a.b, new(big.Int).SetUint64(mask(w)))
		// big.Int And with negative numbers uses two's complement semantics: fine
		return BVConst(m.Uint64(), w)
	}
	return tb.wrap(BV(w), fmt.Sprintf("((_ int2bv %d) %s)", w, a.s))
}

// ---- FP ----

func (tb *TB) FPCmp(op string, a, b *Term) *Term {
	if a.c && b.c {
		switch op {
		case "fp.lt":
			return BoolT(a.f < b.f)
		case "fp.leq":
			return BoolT(a.f <= b.f)
		case "fp.gt":
			return BoolT(a.f > b.f)
		case "fp.geq":
			return BoolT(a.f >= b.f)
		case "fp.eq":
			return BoolT(a.f == b.f)
		}
	}
	return tb.mk(SBool, op, a, b)
}

func (tb *TB) FPArith(op string, a, b *Term) *Term {
	if a.c && b.c {
		var r float64
		if a.S.W == 32 {
			x, y := float32(a.f), float32(b.f)
			var z float32
			switch op {
			case "fp.add":
				z = x + y
			case "fp.sub":
				z = x - y
			case "fp.mul":
				z = x * y
			case "fp.div":
				z = x / y
			}
			r = float64(z)
		} else {
			switch op {
			case "fp.add":
				r = a.f + b.f
			case "fp.sub":
				r = a.f - b.f
			case "fp.mul":
				r = a.f * b.f
			case "fp.div":
				r = a.f / b.f
			}
		}
		return FPConst(r, a.S.W)
	}
	return tb.wrap(a.S, fmt.Sprintf("(%s RNE %s %s)", op, a.s, b.s))
}

func (tb *TB) FPNeg(a *Term) *Term {
	if a.c {
		return FPConst(-a.f, a.S.W)
	}
	return tb.mk(a.S, "fp.neg", a)
}

func fpParams(w int) string {
	if w == 32 {
		return "8 24"
	}
	return "11 53"
}

func (tb *TB) FPResize(a *Term, w int) *Term {
	if a.S.W == w {
		return a
	}
	if a.c {
		return FPConst(a.f, w)
	}
	return tb.wrap(FP(w), fmt.Sprintf("((_ to_fp %s) RNE %s)", fpParams(w), a.s))
}

func (tb *TB) BV2FP(a *Term, signed bool, w int) *Term {
	if a.c {
		var f float64
		if signed {
			f = float64(sext64(a.u, a.S.W))
		} else {
			f = float64(a.u)
		}
		if w == 32 {
			if signed {
				f = float64(float32(sext64(a.u, a.S.W)))
			} else {
				f = float64(float32(a.u))
			}
		}
		return FPConst(f, w)
	}
	op := "to_fp_unsigned"
	if signed {
		op = "to_fp"
	}
	return tb.wrap(FP(w), fmt.Sprintf("((_ %s %s) RNE %s)", op, fpParams(w), a.s))
}

// FP2BV: Go float->int conversion truncates toward zero (RTZ); out-of-range is
// implementation-defined in Go and unspecified in SMT-LIB.
func (tb *TB) FP2BV(a *Term, signed bool, w int) *Term {
	if a.c && !math.IsNaN(a.f) && !math.IsInf(a.f, 0) && math.Abs(a.f) < 9e18 {
		if signed {
			return BVConst(uint64(int64(a.f)), w)
		}
		if a.f >= 0 {
			return BVConst(uint64(a.f), w)
		}
	}
	op := "fp.to_ubv"
	if signed {
		op = "fp.to_sbv"
	}
	return tb.wrap(BV(w), fmt.Sprintf("((_ %s %d) RTZ %s)", op, w, a.s))
}

func (tb *TB) FPIsNaN(a *Term) *Term {
	if a.c {
		return BoolT(math.IsNaN(a.f))
	}
	return tb.mk(SBool, "fp.isNaN", a)
}
