package sx

import (
	"bufio"
	"encoding/json"
	"fmt"
	"os"
	"path/filepath"
	"regexp"
	"sort"
	"strconv"
	"strings"
)

// Obligation is one harness entry point, declared in a harness file by
//   //verif:obligation C17.a tier=quick panics=violation ...
//   func H_C17a() { ... }
type Obligation struct {
	ID      string
	Prop    string
	Pkg     string // repo-relative package dir, e.g. core/ceremony
	PkgName string
	Func    string
	Tier    string // quick | thorough
	Opts    map[string]string
	File    string
	Desc    string
}

var oblRe = regexp.MustCompile(`^//verif:obligation\s+(\S+)(.*)$`)
var funcRe = regexp.MustCompile(`^func\s+(H_\w+)\s*\(`)
var pkgRe = regexp.MustCompile(`^package\s+(\w+)`)

// Discover scans /verif/harness for obligations.
func Discover(harnessDir string) ([]Obligation, error) {
	var res []Obligation
	err := filepath.Walk(harnessDir, func(p string, info os.FileInfo, err error) error {
		if err != nil {
			return err
		}
		if info.IsDir() {
			if strings.HasPrefix(info.Name(), "_") {
				return filepath.SkipDir
			}
			return nil
		}
		if !strings.HasSuffix(p, ".go") || !strings.HasPrefix(info.Name(), "zz_verif") {
			return nil
		}
		rel, _ := filepath.Rel(harnessDir, filepath.Dir(p))
		f, err := os.Open(p)
		if err != nil {
			return err
		}
		defer f.Close()
		sc := bufio.NewScanner(f)
		sc.Buffer(make([]byte, 1<<20), 1<<20)
		var pending []Obligation
		pkgName := ""
		var desc []string
		for sc.Scan() {
			line := sc.Text()
			if m := pkgRe.FindStringSubmatch(line); m != nil && pkgName == "" {
				pkgName = m[1]
			}
			if m := oblRe.FindStringSubmatch(line); m != nil {
				o := Obligation{ID: m[1], Pkg: rel, Tier: "quick", Opts: map[string]string{}, File: p}
				o.Prop = strings.SplitN(o.ID, ".", 2)[0]
				for _, kv := range strings.Fields(m[2]) {
					if i := strings.Index(kv, "="); i > 0 {
						o.Opts[kv[:i]] = kv[i+1:]
					}
				}
				if t, ok := o.Opts["tier"]; ok {
					o.Tier = t
				}
				pending = append(pending, o)
				continue
			}
			if strings.HasPrefix(line, "//") && len(pending) > 0 {
				desc = append(desc, strings.TrimSpace(strings.TrimPrefix(line, "//")))
				continue
			}
			if m := funcRe.FindStringSubmatch(line); m != nil {
				for _, o := range pending {
					o.Func = m[1]
					o.PkgName = pkgName
					o.Desc = strings.Join(desc, " ")
					res = append(res, o)
				}
				pending = nil
				desc = nil
			} else if strings.TrimSpace(line) != "" && !strings.HasPrefix(line, "//") {
				pending = nil
				desc = nil
			}
		}
		return sc.Err()
	})
	sort.Slice(res, func(i, j int) bool { return res[i].ID < res[j].ID })
	return res, err
}

func (o Obligation) IntOpt(k string, def int) int {
	if v, ok := o.Opts[k]; ok {
		if n, err := strconv.Atoi(v); err == nil {
			return n
		}
	}
	return def
}

// GenerateSupport writes, for every package dir under harnessDir that has harness files,
// the API file, the registry and the replay test wrapper into genDir (mirroring the layout).
func GenerateSupport(harnessDir, genDir string, obls []Obligation) error {
	api, err := os.ReadFile(filepath.Join(harnessDir, "_tmpl", "zz_verif_api.go.tmpl"))
	if err != nil {
		return err
	}
	rt, err := os.ReadFile(filepath.Join(harnessDir, "_tmpl", "zz_verif_replay_test.go.tmpl"))
	if err != nil {
		return err
	}
	type pk struct {
		name  string
		funcs map[string]bool
	}
	pkgs := map[string]*pk{}
	// every dir with zz_verif files needs the API (even without obligations)
	filepath.Walk(harnessDir, func(p string, info os.FileInfo, err error) error {
		if err != nil || info.IsDir() || !strings.HasSuffix(p, ".go") || !strings.HasPrefix(info.Name(), "zz_verif") {
			return nil
		}
		rel, _ := filepath.Rel(harnessDir, filepath.Dir(p))
		if strings.HasPrefix(rel, "_") {
			return nil
		}
		if pkgs[rel] == nil {
			b, _ := os.ReadFile(p)
			name := ""
			for _, l := range strings.Split(string(b), "\n") {
				if m := pkgRe.FindStringSubmatch(l); m != nil {
					name = m[1]
					break
				}
			}
			pkgs[rel] = &pk{name: name, funcs: map[string]bool{}}
		}
		return nil
	})
	for _, o := range obls {
		if pkgs[o.Pkg] != nil {
			pkgs[o.Pkg].funcs[o.Func] = true
		}
	}
	os.RemoveAll(genDir)
	rtSrc, err := os.ReadFile(filepath.Join(harnessDir, "_tmpl", "zz_verif_rt.go.tmpl"))
	if err != nil {
		return err
	}
	if err := os.MkdirAll(filepath.Join(genDir, "zzverifrt"), 0o755); err != nil {
		return err
	}
	if err := os.WriteFile(filepath.Join(genDir, "zzverifrt", "rt.go"), rtSrc, 0o644); err != nil {
		return err
	}
	for rel, k := range pkgs {
		d := filepath.Join(genDir, rel)
		if err := os.MkdirAll(d, 0o755); err != nil {
			return err
		}
		rep := func(b []byte) []byte { return []byte(strings.ReplaceAll(string(b), "PKGNAME", k.name)) }
		if err := os.WriteFile(filepath.Join(d, "zz_verif_api.go"), rep(api), 0o644); err != nil {
			return err
		}
		if err := os.WriteFile(filepath.Join(d, "zz_verif_replay_test.go"), rep(rt), 0o644); err != nil {
			return err
		}
		var fs []string
		for f := range k.funcs {
			fs = append(fs, f)
		}
		sort.Strings(fs)
		var sb strings.Builder
		fmt.Fprintf(&sb, "// Code generated. DO NOT EDIT.\npackage %s\n\nimport \"fmt\"\n\nvar vHarnesses = map[string]func(){\n", k.name)
		for _, f := range fs {
			fmt.Fprintf(&sb, "\t%q: %s,\n", f, f)
		}
		sb.WriteString("}\n\nfunc vFmtPanic(r interface{}) string { return fmt.Sprint(r) }\n")
		if err := os.WriteFile(filepath.Join(d, "zz_verif_reg.go"), []byte(sb.String()), 0o644); err != nil {
			return err
		}
	}
	return nil
}

// WriteOverlayJSON writes a go build -overlay file for native replay.
func WriteOverlayJSON(repo string, dirs []string, out string, extra map[string]string) error {
	ov, _, err := buildOverlayMulti(repo, dirs, true)
	if err != nil {
		return err
	}
	// go build overlays map to real files: materialise the two module-cache fixes
	rep := map[string]string{}
	base := filepath.Dir(out)
	i := 0
	for virt, content := range ov {
		real := ""
		// harness files exist on disk already
		for _, d := range dirs {
			rel, err := filepath.Rel(repo, virt)
			if err == nil && !strings.HasPrefix(rel, "..") {
				cand := filepath.Join(d, rel)
				if _, err := os.Stat(cand); err == nil {
					real = cand
					break
				}
			}
		}
		if real == "" {
			i++
			real = filepath.Join(base, fmt.Sprintf("ovfile_%d.go", i))
			if err := os.WriteFile(real, content, 0o644); err != nil {
				return err
			}
		}
		rep[virt] = real
	}
	for k, v := range extra {
		rep[k] = v
	}
	b, _ := json.MarshalIndent(map[string]interface{}{"Replace": rep}, "", " ")
	return os.WriteFile(out, b, 0o644)
}

func buildOverlayMulti(repo string, dirs []string, withTests bool) (map[string][]byte, []string, error) {
	all := map[string][]byte{}
	var files []string
	for _, d := range dirs {
		ov, fs, err := BuildOverlay(repo, d, withTests)
		if err != nil {
			return nil, nil, err
		}
		for k, v := range ov {
			all[k] = v
		}
		files = append(files, fs...)
	}
	return all, files, nil
}
