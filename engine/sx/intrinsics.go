package sx

import (
	"fmt"
	"go/token"
	"go/types"
	"math"
	"math/big"
	"strings"

	"golang.org/x/tools/go/ssa"
)

func (e *Engine) intrinsicFor(fn *ssa.Function) (intrinsicFn, bool) {
	if name, ok := e.apiFuncs[fn]; ok {
		if f, ok := apiIntrinsics[name]; ok {
			return f, true
		}
	}
	name := fn.String()
	if f, ok := e.intrinsics[name]; ok {
		return f, true
	}
	if o := fn.Origin(); o != nil {
		if f, ok := e.intrinsics[o.String()]; ok {
			return f, true
		}
	}
	if fn.Pkg != nil {
		if f, ok := e.intrinsics[fn.Pkg.Pkg.Path()+".*"]; ok {
			return f, true
		}
	} else if fn.Signature.Recv() != nil {
		// method of a package-less (export data) type
	}
	if fn.Blocks == nil {
		// functions without body: package-wide stubs by package path
		if pk := fnPkgPath(fn); pk != "" {
			if f, ok := e.intrinsics[pk+".*"]; ok {
				return f, true
			}
		}
	}
	return nil, false
}

func fnPkgPath(fn *ssa.Function) string {
	if fn.Pkg != nil {
		return fn.Pkg.Pkg.Path()
	}
	if fn.Object() != nil && fn.Object().Pkg() != nil {
		return fn.Object().Pkg().Path()
	}
	return ""
}

func (p *Path) stub(name string) { p.stubs[name] = true }

func noop(p *Path, fr *frame, fn *ssa.Function, args []Value, pos token.Pos) Value {
	p.stub(fn.String() + " => no-op")
	return zeroResults(fn)
}

// opaqueObj returns a non-nil universal no-op object usable behind any interface.
func (p *Path) opaqueIface(kind, msg string) IfaceV {
	p.nObj++
	return IfaceV{T: p.E.opaqueErrT, V: OpaqueV{Kind: kind, ID: p.nObj, Msg: StrConst(msg)}}
}

func (p *Path) callBuiltinClosure(fr *frame, f *FuncV, args []Value, pos token.Pos) Value {
	switch {
	case strings.HasPrefix(f.Builtin, "opaque:"):
		m := strings.TrimPrefix(f.Builtin, "opaque:")
		ov := f.Data[0].(OpaqueV)
		switch m {
		case "Error", "String":
			return ov.Msg
		case "Cause", "Unwrap":
			if len(ov.Data) > 0 {
				return ov.Data[0]
			}
			return IfaceV{}
		}
		p.unsupported(fr, pos, "method "+m+" on opaque value "+ov.Kind)
	case f.Builtin == "zero":
		tv := f.Data[0].(TupleV)
		switch len(tv) {
		case 0:
			return nil
		case 1:
			return tv[0]
		}
		return tv
	case f.Builtin == "swapper":
		s := f.Data[0].(SliceV)
		i := p.indexTerm(fr, args[0].(*Term), types.Typ[types.Int], s.Len, pos)
		j := p.indexTerm(fr, args[1].(*Term), types.Typ[types.Int], s.Len, pos)
		a, b := p.sliceGet(s, i), p.sliceGet(s, j)
		p.sliceSet(s, i, b)
		p.sliceSet(s, j, a)
		return nil
	}
	p.unsupported(fr, pos, "builtin closure "+f.Builtin)
	return nil
}

func bigArg(p *Path, fr *frame, v Value, pos token.Pos) *Term {
	ptr := v.(PtrV)
	if ptr.IsNil() {
		p.goPanic(fr, pos, "nil pointer dereference (*big.Int)")
	}
	return ptr.Load().(BigV).T
}

func (p *Path) newBig(t *Term) PtrV {
	return PtrV{O: p.newObj(BigV{t}, nil, "big.Int")}
}

func (p *Path) termToInt(t *Term, typ types.Type) *Term {
	return p.tb.BV2Int(t, isSigned(typ))
}

func registerIntrinsics(e *Engine) {
	I := e.intrinsics
	bigRecv := func(f func(p *Path, fr *frame, z PtrV, a []*Term, pos token.Pos) *Term, nbig int) intrinsicFn {
		return func(p *Path, fr *frame, fn *ssa.Function, args []Value, pos token.Pos) Value {
			z := args[0].(PtrV)
			if z.IsNil() {
				p.goPanic(fr, pos, "nil pointer dereference (*big.Int receiver in "+fn.Name()+")")
			}
			var a []*Term
			for i := 1; i <= nbig; i++ {
				a = append(a, bigArg(p, fr, args[i], pos))
			}
			r := f(p, fr, z, a, pos)
			z.Store(BigV{r})
			return z
		}
	}
	I["math/big.NewInt"] = func(p *Path, fr *frame, fn *ssa.Function, args []Value, pos token.Pos) Value {
		return p.newBig(p.tb.BV2Int(args[0].(*Term), true))
	}
	I["(*math/big.Int).Set"] = bigRecv(func(p *Path, fr *frame, z PtrV, a []*Term, pos token.Pos) *Term { return a[0] }, 1)
	I["(*math/big.Int).Add"] = bigRecv(func(p *Path, fr *frame, z PtrV, a []*Term, pos token.Pos) *Term { return p.tb.IAdd(a[0], a[1]) }, 2)
	I["(*math/big.Int).Sub"] = bigRecv(func(p *Path, fr *frame, z PtrV, a []*Term, pos token.Pos) *Term { return p.tb.ISub(a[0], a[1]) }, 2)
	I["(*math/big.Int).Mul"] = bigRecv(func(p *Path, fr *frame, z PtrV, a []*Term, pos token.Pos) *Term { return p.tb.IMul(a[0], a[1]) }, 2)
	I["(*math/big.Int).Neg"] = bigRecv(func(p *Path, fr *frame, z PtrV, a []*Term, pos token.Pos) *Term { return p.tb.INeg(a[0]) }, 1)
	I["(*math/big.Int).Abs"] = bigRecv(func(p *Path, fr *frame, z PtrV, a []*Term, pos token.Pos) *Term { return p.tb.IAbs(a[0]) }, 1)
	divLike := func(op string) intrinsicFn {
		return bigRecv(func(p *Path, fr *frame, z PtrV, a []*Term, pos token.Pos) *Term {
			zero := p.tb.Eq(a[1], IntConst64(0))
			if p.forkBool(zero, fr, pos) {
				p.goPanic(fr, pos, "division by zero (big.Int."+op+")")
			}
			return p.bigDiv(op, a[0], a[1])
		}, 2)
	}
	I["(*math/big.Int).Quo"] = divLike("Quo")
	I["(*math/big.Int).Rem"] = divLike("Rem")
	I["(*math/big.Int).Div"] = divLike("Div")
	I["(*math/big.Int).Mod"] = divLike("Mod")
	I["(*math/big.Int).QuoRem"] = func(p *Path, fr *frame, fn *ssa.Function, args []Value, pos token.Pos) Value {
		z := args[0].(PtrV)
		x, y := bigArg(p, fr, args[1], pos), bigArg(p, fr, args[2], pos)
		r := args[3].(PtrV)
		if z.IsNil() || r.IsNil() {
			p.goPanic(fr, pos, "nil pointer dereference (QuoRem)")
		}
		if p.forkBool(p.tb.Eq(y, IntConst64(0)), fr, pos) {
			p.goPanic(fr, pos, "division by zero (big.Int.QuoRem)")
		}
		q, rm := p.bigDiv("Quo", x, y), p.bigDiv("Rem", x, y)
		z.Store(BigV{q})
		r.Store(BigV{rm})
		return TupleV{z, r}
	}
	I["(*math/big.Int).DivMod"] = func(p *Path, fr *frame, fn *ssa.Function, args []Value, pos token.Pos) Value {
		z := args[0].(PtrV)
		x, y := bigArg(p, fr, args[1], pos), bigArg(p, fr, args[2], pos)
		r := args[3].(PtrV)
		if p.forkBool(p.tb.Eq(y, IntConst64(0)), fr, pos) {
			p.goPanic(fr, pos, "division by zero (big.Int.DivMod)")
		}
		q, rm := p.bigDiv("Div", x, y), p.bigDiv("Mod", x, y)
		z.Store(BigV{q})
		r.Store(BigV{rm})
		return TupleV{z, r}
	}
	I["(*math/big.Int).SetInt64"] = func(p *Path, fr *frame, fn *ssa.Function, args []Value, pos token.Pos) Value {
		z := args[0].(PtrV)
		if z.IsNil() {
			p.goPanic(fr, pos, "nil pointer dereference (SetInt64)")
		}
		z.Store(BigV{p.tb.BV2Int(args[1].(*Term), true)})
		return z
	}
	I["(*math/big.Int).SetUint64"] = func(p *Path, fr *frame, fn *ssa.Function, args []Value, pos token.Pos) Value {
		z := args[0].(PtrV)
		if z.IsNil() {
			p.goPanic(fr, pos, "nil pointer dereference (SetUint64)")
		}
		z.Store(BigV{p.tb.BV2Int(args[1].(*Term), false)})
		return z
	}
	I["(*math/big.Int).Cmp"] = func(p *Path, fr *frame, fn *ssa.Function, args []Value, pos token.Pos) Value {
		x, y := bigArg(p, fr, args[0], pos), bigArg(p, fr, args[1], pos)
		return p.tri(p.tb.ILt(x, y), p.tb.ILt(y, x))
	}
	I["(*math/big.Int).CmpAbs"] = func(p *Path, fr *frame, fn *ssa.Function, args []Value, pos token.Pos) Value {
		tb := p.tb
		x, y := tb.IAbs(bigArg(p, fr, args[0], pos)), tb.IAbs(bigArg(p, fr, args[1], pos))
		return p.tri(tb.ILt(x, y), tb.ILt(y, x))
	}
	I["(*math/big.Int).Sign"] = func(p *Path, fr *frame, fn *ssa.Function, args []Value, pos token.Pos) Value {
		x := bigArg(p, fr, args[0], pos)
		tb := p.tb
		z := IntConst64(0)
		return p.tri(tb.ILt(x, z), tb.ILt(z, x))
	}
	I["(*math/big.Int).Int64"] = func(p *Path, fr *frame, fn *ssa.Function, args []Value, pos token.Pos) Value {
		// low 64 bits of |x| with the sign applied (as math/big does)
		x := bigArg(p, fr, args[0], pos)
		tb := p.tb
		if x.bvS != nil {
			c := *x.bvS
			c.ivS = x
			return &c
		}
		lo := tb.Int2BV(tb.IAbs(x), 64)
		r := tb.Ite(tb.ILt(x, IntConst64(0)), tb.BVNeg(lo), lo)
		if !r.c {
			// when the value fits into int64 (decided by a fork) the result keeps x as its integer shadow,
			// so that later comparisons and big.NewInt(...) stay in integer arithmetic
			fits := tb.And(tb.ILe(IntConst64(math.MinInt64), x), tb.ILe(x, IntConst64(math.MaxInt64)))
			if p.forkBool(fits, fr, pos) {
				c := *r
				c.ivS = x
				if p.isKnown(tb.ILe(IntConst64(0), x).s) || p.forkBoolQuiet(tb.ILe(IntConst64(0), x)) {
					c.ivSMin = true
				}
				return &c
			}
		}
		return r
	}
	I["(*math/big.Int).Uint64"] = func(p *Path, fr *frame, fn *ssa.Function, args []Value, pos token.Pos) Value {
		x := bigArg(p, fr, args[0], pos)
		if x.bvU != nil {
			c := *x.bvU
			c.ivU = x
			return &c
		}
		r := p.tb.Int2BV(p.tb.IAbs(x), 64)
		if !r.c {
			c := *r
			c.ivU = p.tb.IMod(p.tb.IAbs(x), IntConst(new(big.Int).Lsh(big.NewInt(1), 64)))
			return &c
		}
		return r
	}
	I["(*math/big.Int).IsInt64"] = func(p *Path, fr *frame, fn *ssa.Function, args []Value, pos token.Pos) Value {
		x := bigArg(p, fr, args[0], pos)
		tb := p.tb
		return tb.And(tb.ILe(IntConst64(math.MinInt64), x), tb.ILe(x, IntConst64(math.MaxInt64)))
	}
	I["(*math/big.Int).IsUint64"] = func(p *Path, fr *frame, fn *ssa.Function, args []Value, pos token.Pos) Value {
		x := bigArg(p, fr, args[0], pos)
		tb := p.tb
		return tb.And(tb.ILe(IntConst64(0), x), tb.ILe(x, IntConst(new(big.Int).SetUint64(math.MaxUint64))))
	}
	shift := func(left bool) intrinsicFn {
		return func(p *Path, fr *frame, fn *ssa.Function, args []Value, pos token.Pos) Value {
			z := args[0].(PtrV)
			x := bigArg(p, fr, args[1], pos)
			n := args[2].(*Term)
			if !n.c {
				p.unsupported(fr, pos, "big.Int shift by symbolic amount")
			}
			pw := IntConst(new(big.Int).Lsh(big.NewInt(1), uint(n.u)))
			var r *Term
			if left {
				r = p.tb.IMul(x, pw)
			} else {
				r = p.tb.IDiv(x, pw) // Rsh is floor division (arithmetic shift)
			}
			z.Store(BigV{r})
			return z
		}
	}
	I["(*math/big.Int).Lsh"] = shift(true)
	I["(*math/big.Int).Rsh"] = shift(false)
	I["(*math/big.Int).Exp"] = func(p *Path, fr *frame, fn *ssa.Function, args []Value, pos token.Pos) Value {
		z := args[0].(PtrV)
		x, y := bigArg(p, fr, args[1], pos), bigArg(p, fr, args[2], pos)
		var m *Term
		if mp := args[3].(PtrV); !mp.IsNil() {
			m = mp.Load().(BigV).T
		}
		if !x.c || !y.c || (m != nil && !m.c) {
			p.unsupported(fr, pos, "big.Int.Exp with symbolic operands")
		}
		var mb *big.Int
		if m != nil {
			mb = m.b
		}
		z.Store(BigV{IntConst(new(big.Int).Exp(x.b, y.b, mb))})
		return z
	}
	I["(*math/big.Int).BitLen"] = func(p *Path, fr *frame, fn *ssa.Function, args []Value, pos token.Pos) Value {
		x := bigArg(p, fr, args[0], pos)
		if !x.c {
			p.unsupported(fr, pos, "big.Int.BitLen symbolic")
		}
		return BVConst(uint64(x.b.BitLen()), 64)
	}
	I["(*math/big.Int).String"] = func(p *Path, fr *frame, fn *ssa.Function, args []Value, pos token.Pos) Value {
		ptr := args[0].(PtrV)
		if ptr.IsNil() {
			return StrConst("<nil>")
		}
		x := ptr.Load().(BigV).T
		if x.c {
			return StrConst(x.b.String())
		}
		p.stub("(*math/big.Int).String => opaque text")
		return StrConst("<big>")
	}
	I["(*math/big.Int).SetString"] = func(p *Path, fr *frame, fn *ssa.Function, args []Value, pos token.Pos) Value {
		z := args[0].(PtrV)
		s, ok := args[1].(StrV).Concrete()
		base := args[2].(*Term)
		if !ok || !base.c {
			p.unsupported(fr, pos, "big.Int.SetString symbolic")
		}
		v, ok2 := new(big.Int).SetString(s, int(base.u))
		if !ok2 {
			return TupleV{PtrV{}, tFalse}
		}
		z.Store(BigV{IntConst(v)})
		return TupleV{z, tTrue}
	}
	I["(*math/big.Int).Bytes"] = func(p *Path, fr *frame, fn *ssa.Function, args []Value, pos token.Pos) Value {
		x := p.tb.IAbs(bigArg(p, fr, args[0], pos))
		return p.bigBytes(fr, x, pos)
	}
	I["(*math/big.Int).SetBytes"] = func(p *Path, fr *frame, fn *ssa.Function, args []Value, pos token.Pos) Value {
		z := args[0].(PtrV)
		if z.IsNil() {
			p.goPanic(fr, pos, "nil pointer dereference (SetBytes)")
		}
		s := args[1].(SliceV)
		if s.O != nil && s.Len > 0 && s.Off == 0 {
			if x, ok := p.bigBlobs[s.O]; ok && s.Len == len(p.backing(s.O).E) {
				z.Store(BigV{x})
				return z
			}
		}
		var bs []*Term
		for i := 0; i < s.Len; i++ {
			bs = append(bs, p.sliceGet(s, i).(*Term))
		}
		z.Store(BigV{p.bytesToInt(bs)})
		return z
	}
	// big.Float: opaque (UF) – see DESIGN §3.3
	// sync
	lock := func(delta int, what string) intrinsicFn {
		return func(p *Path, fr *frame, fn *ssa.Function, args []Value, pos token.Pos) Value {
			ptr := args[0].(PtrV)
			if ptr.IsNil() {
				p.goPanic(fr, pos, "nil pointer dereference (mutex)")
			}
			key := viewKey(ptr)
			st := p.locks[key]
			if what == "Lock" || what == "RLock" {
				// lock-order graph: every lock held now is acquired-before this one
				for h := range p.locks {
					if h != key {
						p.lockEdges[h+" -> "+key] = true
					}
				}
			}
			switch what {
			case "Lock":
				if st != 0 {
					p.lockViolation(fr, pos, "Lock of a mutex already held (self-deadlock)")
				}
				p.locks[key] = -1
			case "Unlock":
				if st != -1 {
					p.lockViolation(fr, pos, "Unlock of a mutex not write-locked")
				}
				delete(p.locks, key)
			case "RLock":
				if st == -1 {
					p.lockViolation(fr, pos, "RLock while write-locked (self-deadlock)")
				}
				p.locks[key] = st + 1
			case "RUnlock":
				if st <= 0 {
					p.lockViolation(fr, pos, "RUnlock of a mutex not read-locked")
				}
				if st == 1 {
					delete(p.locks, key)
				} else {
					p.locks[key] = st - 1
				}
			}
			return nil
		}
	}
	I["(*sync.Mutex).Lock"] = lock(1, "Lock")
	I["(*sync.Mutex).Unlock"] = lock(-1, "Unlock")
	I["(*sync.RWMutex).Lock"] = lock(1, "Lock")
	I["(*sync.RWMutex).Unlock"] = lock(-1, "Unlock")
	I["(*sync.RWMutex).RLock"] = lock(1, "RLock")
	I["(*sync.RWMutex).RUnlock"] = lock(-1, "RUnlock")
	I["(*sync.Once).Do"] = func(p *Path, fr *frame, fn *ssa.Function, args []Value, pos token.Pos) Value {
		key := "once:" + viewKey(args[0].(PtrV))
		if p.flags[key] {
			return nil
		}
		p.flags[key] = true
		p.sideMods++
		p.callValue(fr, args[1], nil, pos)
		return nil
	}
	I["(*sync.WaitGroup).Add"] = noop
	I["(*sync.WaitGroup).Done"] = noop
	I["(*sync.WaitGroup).Wait"] = noop
	// sync.Map via side table
	smap := func(p *Path, v Value) *MapV {
		key := viewKey(v.(PtrV))
		m, ok := p.syncMaps[key]
		if !ok {
			p.nObj++
			m = &MapV{ID: p.nObj}
			p.syncMaps[key] = m
			p.sideMods++
		}
		return m
	}
	I["(*sync.Map).Load"] = func(p *Path, fr *frame, fn *ssa.Function, args []Value, pos token.Pos) Value {
		m := smap(p, args[0])
		i := p.mapFind(fr, m, args[1], pos)
		if i < 0 {
			return TupleV{IfaceV{}, tFalse}
		}
		return TupleV{m.E[i].V, tTrue}
	}
	I["(*sync.Map).Store"] = func(p *Path, fr *frame, fn *ssa.Function, args []Value, pos token.Pos) Value {
		p.mapSet(fr, smap(p, args[0]), args[1], args[2], pos)
		return nil
	}
	I["(*sync.Map).LoadOrStore"] = func(p *Path, fr *frame, fn *ssa.Function, args []Value, pos token.Pos) Value {
		m := smap(p, args[0])
		i := p.mapFind(fr, m, args[1], pos)
		if i >= 0 {
			return TupleV{m.E[i].V, tTrue}
		}
		p.journalMap(m)
		m.E = append(append([]MapEntry(nil), m.E...), MapEntry{K: args[1], V: args[2]})
		return TupleV{args[2], tFalse}
	}
	I["(*sync.Map).Delete"] = func(p *Path, fr *frame, fn *ssa.Function, args []Value, pos token.Pos) Value {
		p.mapDelete(fr, smap(p, args[0]), args[1], pos)
		return nil
	}
	I["(*sync.Map).Range"] = func(p *Path, fr *frame, fn *ssa.Function, args []Value, pos token.Pos) Value {
		m := smap(p, args[0])
		snap := append([]MapEntry(nil), m.E...)
		order := make([]int, len(snap))
		for i := range order {
			order[i] = i
		}
		if p.mapOrderNondet && len(snap) > 1 {
			rem := append([]int(nil), order...)
			order = order[:0]
			for len(rem) > 1 {
				c := p.choose(len(rem), "syncmaporder")
				order = append(order, rem[c])
				rem = append(rem[:c:c], rem[c+1:]...)
			}
			order = append(order, rem[0])
		}
		for _, i := range order {
			r := p.callValue(fr, args[1], []Value{snap[i].K, snap[i].V}, pos).(*Term)
			if !p.forkBool(r, fr, pos) {
				break
			}
		}
		return nil
	}
	// sync/atomic
	atomLoad := func(p *Path, fr *frame, fn *ssa.Function, args []Value, pos token.Pos) Value {
		ptr := args[0].(PtrV)
		if ptr.IsNil() {
			p.goPanic(fr, pos, "nil pointer dereference (atomic)")
		}
		return ptr.Load()
	}
	atomStore := func(p *Path, fr *frame, fn *ssa.Function, args []Value, pos token.Pos) Value {
		ptr := args[0].(PtrV)
		if ptr.IsNil() {
			p.goPanic(fr, pos, "nil pointer dereference (atomic)")
		}
		ptr.Store(args[1])
		return nil
	}
	atomAdd := func(p *Path, fr *frame, fn *ssa.Function, args []Value, pos token.Pos) Value {
		ptr := args[0].(PtrV)
		if ptr.IsNil() {
			p.goPanic(fr, pos, "nil pointer dereference (atomic)")
		}
		n := p.tb.BVAdd(ptr.Load().(*Term), args[1].(*Term))
		ptr.Store(n)
		return n
	}
	atomCAS := func(p *Path, fr *frame, fn *ssa.Function, args []Value, pos token.Pos) Value {
		ptr := args[0].(PtrV)
		if ptr.IsNil() {
			p.goPanic(fr, pos, "nil pointer dereference (atomic)")
		}
		eq := p.eqValue(ptr.Load(), args[1])
		if p.forkBool(eq, fr, pos) {
			ptr.Store(args[2])
			return tTrue
		}
		return tFalse
	}
	atomSwap := func(p *Path, fr *frame, fn *ssa.Function, args []Value, pos token.Pos) Value {
		ptr := args[0].(PtrV)
		old := ptr.Load()
		ptr.Store(args[1])
		return old
	}
	for _, t := range []string{"Int32", "Int64", "Uint32", "Uint64", "Uintptr", "Pointer"} {
		I["sync/atomic.Load"+t] = atomLoad
		I["sync/atomic.Store"+t] = atomStore
		I["sync/atomic.Add"+t] = atomAdd
		I["sync/atomic.CompareAndSwap"+t] = atomCAS
		I["sync/atomic.Swap"+t] = atomSwap
	}
	I["(*sync/atomic.Value).Load"] = func(p *Path, fr *frame, fn *ssa.Function, args []Value, pos token.Pos) Value {
		key := "av:" + viewKey(args[0].(PtrV))
		if v, ok := p.atomVals[key]; ok {
			return v
		}
		return IfaceV{}
	}
	I["(*sync/atomic.Value).Store"] = func(p *Path, fr *frame, fn *ssa.Function, args []Value, pos token.Pos) Value {
		key := "av:" + viewKey(args[0].(PtrV))
		p.atomVals[key] = args[1]
		p.sideMods++
		return nil
	}
	// errors / fmt
	I["fmt.Errorf"] = func(p *Path, fr *frame, fn *ssa.Function, args []Value, pos token.Pos) Value {
		p.stub("fmt.Errorf => opaque error (message = format string)")
		msg, _ := args[0].(StrV).Concrete()
		ov := p.opaqueIface("fmt.Errorf", msg)
		// keep wrapped errors (%w) reachable through Unwrap
		if s, ok := args[1].(SliceV); ok {
			o := ov.V.(OpaqueV)
			for i := 0; i < s.Len; i++ {
				if iv, ok := p.sliceGet(s, i).(IfaceV); ok && iv.T != nil && isErrorLike(p, iv) {
					o.Data = append(o.Data, iv)
					break
				}
			}
			ov.V = o
		}
		return ov
	}
	I["fmt.Sprintf"] = func(p *Path, fr *frame, fn *ssa.Function, args []Value, pos token.Pos) Value {
		p.stub("fmt.Sprintf => format string only")
		return args[0]
	}
	I["fmt.Sprint"] = func(p *Path, fr *frame, fn *ssa.Function, args []Value, pos token.Pos) Value {
		p.stub("fmt.Sprint => constant text")
		return StrConst("<fmt.Sprint>")
	}
	I["fmt.Println"] = noop
	I["fmt.Printf"] = noop
	I["fmt.Print"] = noop
	I["fmt.Fprintf"] = noop
	// math/rand: an arbitrary-output generator (DESIGN §3.3): what holds for every output holds for every seed
	I["math/rand.NewSource"] = func(p *Path, fr *frame, fn *ssa.Function, args []Value, pos token.Pos) Value {
		p.stub("math/rand => arbitrary outputs (Intn arbitrary in range, Perm arbitrary permutation)")
		return p.opaqueIface("rand.Source", "source")
	}
	I["math/rand.New"] = func(p *Path, fr *frame, fn *ssa.Function, args []Value, pos token.Pos) Value {
		return PtrV{O: p.newObj(OpaqueV{Kind: "rand.Rand"}, nil, "rand.Rand")}
	}
	randInt := func(w int) intrinsicFn {
		return func(p *Path, fr *frame, fn *ssa.Function, args []Value, pos token.Pos) Value {
			p.nrand++
			t := p.decl(fmt.Sprintf("rand_%d", p.nrand), BV(w))
			if len(args) > 1 { // Intn / Int63n / Int31n: 0 <= t < n (n <= 0 panics)
				n := args[1].(*Term)
				if p.forkBool(p.tb.BVLe(n, BVConst(0, w), true), fr, pos) {
					p.goPanic(fr, pos, "invalid argument to Intn")
				}
				p.assertPC(p.tb.BVLt(t, n, false))
			} else {
				p.assertPC(p.tb.BVLe(BVConst(0, w), t, true))
			}
			return t
		}
	}
	I["(*math/rand.Rand).Intn"] = randInt(64)
	I["(*math/rand.Rand).Int63n"] = randInt(64)
	I["(*math/rand.Rand).Int31n"] = randInt(32)
	I["(*math/rand.Rand).Int63"] = randInt(64)
	I["(*math/rand.Rand).Int"] = randInt(64)
	I["(*math/rand.Rand).Uint64"] = func(p *Path, fr *frame, fn *ssa.Function, args []Value, pos token.Pos) Value {
		p.nrand++
		return p.decl(fmt.Sprintf("rand_%d", p.nrand), BV(64))
	}
	I["(*math/rand.Rand).Perm"] = func(p *Path, fr *frame, fn *ssa.Function, args []Value, pos token.Pos) Value {
		nT := args[1].(*Term)
		if !nT.c {
			p.unsupported(fr, pos, "rand.Perm of symbolic length")
		}
		n := int(nT.u)
		if n > p.E.Cfg.MaxPermute+2 {
			p.abort("inconclusive", fmt.Sprintf("rand.Perm(%d): arbitrary-permutation model limited to %d elements", n, p.E.Cfg.MaxPermute+2))
		}
		rem := make([]int, n)
		for i := range rem {
			rem[i] = i
		}
		arr := make([]Value, 0, n)
		for len(rem) > 1 {
			c := p.choose(len(rem), "rand.Perm")
			arr = append(arr, BVConst(uint64(rem[c]), 64))
			rem = append(rem[:c:c], rem[c+1:]...)
		}
		if n > 0 {
			arr = append(arr, BVConst(uint64(rem[0]), 64))
		}
		return SliceV{O: p.newObj(&ArrayV{E: arr, Mut: true}, nil, "rand.Perm"), Len: n, Cap: n}
	}
	// keccak: an uninterpreted function of the input bytes (DESIGN §3.3)
	hashUF := func(n int, tag string) intrinsicFn {
		return func(p *Path, fr *frame, fn *ssa.Function, args []Value, pos token.Pos) Value {
			p.stub("crypto." + tag + " => uninterpreted function of the input bytes")
			in := p.sliceTerms(args[0].(SliceV))
			srt := make([]Sort, n)
			for k := range srt {
				srt[k] = BV(8)
			}
			out := p.uf(fmt.Sprintf("%s/%d", tag, len(in)), in, srt)
			arr := make([]Value, n)
			for k := range arr {
				arr[k] = out[k]
			}
			return &ArrayV{E: arr}
		}
	}
	I[RepoMod+"/crypto.Hash"] = hashUF(32, "Hash")
	I[RepoMod+"/crypto.Hash128"] = hashUF(16, "Hash128")
	// text renderings of addresses/hashes (checksummed hex via keccak): formatting is not the subject
	txt := func(p *Path, fr *frame, fn *ssa.Function, args []Value, pos token.Pos) Value {
		p.stub(fn.String() + " => constant text")
		return StrConst("<hex>")
	}
	for _, t := range []string{"Address", "Hash", "Hash128"} {
		I["("+RepoMod+"/common."+t+").Hex"] = txt
		I["("+RepoMod+"/common."+t+").String"] = txt
	}
	// cid.Cid is struct{ str string }; Bytes() returns []byte(str)
	I["(github.com/ipfs/go-cid.Cid).Bytes"] = func(p *Path, fr *frame, fn *ssa.Function, args []Value, pos token.Pos) Value {
		s := args[0].(*StructV).F[0].(StrV)
		arr := make([]Value, len(s.B))
		for k, b := range s.B {
			arr[k] = b
		}
		return SliceV{O: p.newObj(&ArrayV{E: arr, Mut: true}, nil, "cid.Bytes"), Len: len(arr), Cap: len(arr)}
	}
	I["reflect.TypeOf"] = func(p *Path, fr *frame, fn *ssa.Function, args []Value, pos token.Pos) Value {
		p.stub("reflect.TypeOf => opaque type token")
		return p.opaqueIface("reflect.Type", "type")
	}
	I["context.Background"] = func(p *Path, fr *frame, fn *ssa.Function, args []Value, pos token.Pos) Value {
		return p.opaqueIface("context", "background")
	}
	I["context.TODO"] = I["context.Background"]
	I["runtime.Callers"] = func(p *Path, fr *frame, fn *ssa.Function, args []Value, pos token.Pos) Value { return BVConst(0, 64) }
	I["runtime.KeepAlive"] = noop
	I["runtime.Gosched"] = noop
	I["runtime.GC"] = noop
	I["runtime/debug.Stack"] = func(p *Path, fr *frame, fn *ssa.Function, args []Value, pos token.Pos) Value { return SliceV{} }
	// whole packages that are pure environment
	I["github.com/idena-network/idena-go/log.*"] = func(p *Path, fr *frame, fn *ssa.Function, args []Value, pos token.Pos) Value {
		p.stub("package idena-go/log => no-op")
		res := fn.Signature.Results()
		if res.Len() == 1 {
			if _, ok := res.At(0).Type().Underlying().(*types.Interface); ok {
				return p.opaqueIface("logger", "logger")
			}
		}
		return zeroResults(fn)
	}
	// bytes / strings (assembly backed)
	I["internal/bytealg.Compare"] = func(p *Path, fr *frame, fn *ssa.Function, args []Value, pos token.Pos) Value {
		return p.bytesCompare(p.sliceTerms(args[0].(SliceV)), p.sliceTerms(args[1].(SliceV)))
	}
	I["bytes.Compare"] = I["internal/bytealg.Compare"]
	I["bytes.Equal"] = func(p *Path, fr *frame, fn *ssa.Function, args []Value, pos token.Pos) Value {
		// two whole proto encodings: the encoding is deterministic and injective on the normalised message,
		// so the byte strings are equal exactly when the messages are (the opaque bytes carry no content)
		if a, b := args[0].(SliceV), args[1].(SliceV); a.O != nil && b.O != nil && a.Len > 0 && b.Len > 0 {
			ba, ok1 := p.protoBlobs[a.O]
			bb, ok2 := p.protoBlobs[b.O]
			if ok1 && ok2 && a.Off == 0 && b.Off == 0 && a.Len == len(p.backing(a.O).E) && b.Len == len(p.backing(b.O).E) {
				if !types.Identical(ba.typ, bb.typ) {
					return tFalse
				}
				return p.deepEq(ba.snap, bb.snap, 0)
			}
			xa, ok1 := p.bigBlobs[a.O]
			xb, ok2 := p.bigBlobs[b.O]
			if ok1 && ok2 && a.Off == 0 && b.Off == 0 && a.Len == len(p.backing(a.O).E) && b.Len == len(p.backing(b.O).E) {
				return p.tb.Eq(xa, xb)
			}
		}
		return p.eqValue(StrV{p.sliceTerms(args[0].(SliceV))}, StrV{p.sliceTerms(args[1].(SliceV))})
	}
	// crypto/subtle (assembly backed): exact semantics, constant time is not the subject
	I["crypto/subtle.ConstantTimeCompare"] = func(p *Path, fr *frame, fn *ssa.Function, args []Value, pos token.Pos) Value {
		a, b := args[0].(SliceV), args[1].(SliceV)
		if a.Len != b.Len {
			return BVConst(0, 64)
		}
		eq := p.eqValue(StrV{p.sliceTerms(a)}, StrV{p.sliceTerms(b)})
		return p.tb.Ite(eq, BVConst(1, 64), BVConst(0, 64))
	}
	I["strings.Contains"] = func(p *Path, fr *frame, fn *ssa.Function, args []Value, pos token.Pos) Value {
		a, ok1 := args[0].(StrV).Concrete()
		b, ok2 := args[1].(StrV).Concrete()
		if !ok1 || !ok2 {
			p.unsupported(fr, pos, "strings.Contains on symbolic strings")
		}
		return BoolT(strings.Contains(a, b))
	}
	I["strings.HasPrefix"] = func(p *Path, fr *frame, fn *ssa.Function, args []Value, pos token.Pos) Value {
		a, b := args[0].(StrV), args[1].(StrV)
		if len(b.B) > len(a.B) {
			return tFalse
		}
		return p.eqValue(StrV{a.B[:len(b.B)]}, b)
	}
	I["strings.HasSuffix"] = func(p *Path, fr *frame, fn *ssa.Function, args []Value, pos token.Pos) Value {
		a, b := args[0].(StrV), args[1].(StrV)
		if len(b.B) > len(a.B) {
			return tFalse
		}
		return p.eqValue(StrV{a.B[len(a.B)-len(b.B):]}, b)
	}
	I["strings.ToLower"] = func(p *Path, fr *frame, fn *ssa.Function, args []Value, pos token.Pos) Value {
		a := args[0].(StrV)
		r := make([]*Term, len(a.B))
		tb := p.tb
		for i, b := range a.B {
			up := tb.And(tb.BVLe(byteConst('A'), b, false), tb.BVLe(b, byteConst('Z'), false))
			r[i] = tb.Ite(up, tb.BVAdd(b, byteConst(32)), b)
		}
		return StrV{r}
	}
	// math
	I["math.Float64bits"] = func(p *Path, fr *frame, fn *ssa.Function, args []Value, pos token.Pos) Value {
		t := args[0].(*Term)
		if t.c {
			return BVConst(math.Float64bits(t.f), 64)
		}
		p.unsupported(fr, pos, "math.Float64bits symbolic")
		return nil
	}
	I["math.Float32bits"] = func(p *Path, fr *frame, fn *ssa.Function, args []Value, pos token.Pos) Value {
		t := args[0].(*Term)
		if t.c {
			return BVConst(uint64(math.Float32bits(float32(t.f))), 32)
		}
		p.unsupported(fr, pos, "math.Float32bits symbolic")
		return nil
	}
	I["math.Float64frombits"] = func(p *Path, fr *frame, fn *ssa.Function, args []Value, pos token.Pos) Value {
		t := args[0].(*Term)
		if t.c {
			return FPConst(math.Float64frombits(t.u), 64)
		}
		return p.tb.wrap(FP(64), fmt.Sprintf("((_ to_fp 11 53) %s)", t.s))
	}
	I["math.Float32frombits"] = func(p *Path, fr *frame, fn *ssa.Function, args []Value, pos token.Pos) Value {
		t := args[0].(*Term)
		if t.c {
			return FPConst(float64(math.Float32frombits(uint32(t.u))), 32)
		}
		return p.tb.wrap(FP(32), fmt.Sprintf("((_ to_fp 8 24) %s)", t.s))
	}
	f1 := func(name string, cf func(float64) float64, smt string) {
		I["math."+name] = func(p *Path, fr *frame, fn *ssa.Function, args []Value, pos token.Pos) Value {
			t := args[0].(*Term)
			if t.c {
				return FPConst(cf(t.f), 64)
			}
			if smt == "" {
				return p.uf("math."+name, []*Term{t}, []Sort{FP(64)})[0]
			}
			return p.tb.wrap(FP(64), fmt.Sprintf(smt, t.s))
		}
	}
	f1("Floor", math.Floor, "(fp.roundToIntegral RTN %s)")
	f1("Ceil", math.Ceil, "(fp.roundToIntegral RTP %s)")
	f1("Trunc", math.Trunc, "(fp.roundToIntegral RTZ %s)")
	f1("Round", math.Round, "(fp.roundToIntegral RNA %s)")
	f1("Abs", math.Abs, "(fp.abs %s)")
	f1("Sqrt", math.Sqrt, "(fp.sqrt RNE %s)")
	f1("Log", math.Log, "")
	f1("Log2", math.Log2, "")
	f1("Exp", math.Exp, "")
	I["math.Pow"] = func(p *Path, fr *frame, fn *ssa.Function, args []Value, pos token.Pos) Value {
		a, b := args[0].(*Term), args[1].(*Term)
		if a.c && b.c {
			return FPConst(math.Pow(a.f, b.f), 64)
		}
		p.stub("math.Pow => uninterpreted function")
		return p.uf("math.Pow", []*Term{a, b}, []Sort{FP(64)})[0]
	}
	I["math.IsNaN"] = func(p *Path, fr *frame, fn *ssa.Function, args []Value, pos token.Pos) Value {
		return p.tb.FPIsNaN(args[0].(*Term))
	}
	I["math.IsInf"] = func(p *Path, fr *frame, fn *ssa.Function, args []Value, pos token.Pos) Value {
		t := args[0].(*Term)
		s := args[1].(*Term)
		if t.c && s.c {
			return BoolT(math.IsInf(t.f, int(sext64(s.u, 64))))
		}
		if !s.c {
			p.unsupported(fr, pos, "math.IsInf symbolic sign")
		}
		inf := p.tb.mk(SBool, "fp.isInfinite", t)
		sg := int(sext64(s.u, 64))
		if sg > 0 {
			return p.tb.And(inf, p.tb.mk(SBool, "fp.isPositive", t))
		} else if sg < 0 {
			return p.tb.And(inf, p.tb.mk(SBool, "fp.isNegative", t))
		}
		return inf
	}
	// sort helpers backed by reflection
	sw := func(p *Path, fr *frame, fn *ssa.Function, args []Value, pos token.Pos) Value {
		iv := args[0].(IfaceV)
		s, ok := iv.V.(SliceV)
		if !ok {
			p.unsupported(fr, pos, "Swapper of non-slice")
		}
		return &FuncV{Builtin: "swapper", Data: []Value{s}}
	}
	I["internal/reflectlite.Swapper"] = sw
	I["reflect.Swapper"] = sw
	I["internal/reflectlite.ValueOf"] = func(p *Path, fr *frame, fn *ssa.Function, args []Value, pos token.Pos) Value {
		// only used by sort.Slice for .Len(): return a struct carrying the interface
		p.unsupported(fr, pos, "reflectlite.ValueOf")
		return nil
	}
	I["sort.Slice"] = sortSliceIntrinsic(false)
	I["sort.SliceStable"] = sortSliceIntrinsic(true)
	// time
	I["time.Now"] = func(p *Path, fr *frame, fn *ssa.Function, args []Value, pos token.Pos) Value {
		p.unsupported(fr, pos, "time.Now without a harness override")
		return nil
	}
	I["time.Sleep"] = noop
	I["time.now"] = I["time.Now"]
	I["time.runtimeNano"] = func(p *Path, fr *frame, fn *ssa.Function, args []Value, pos token.Pos) Value { return BVConst(1, 64) }
}

// bigDiv: exact for constant divisors; for a symbolic divisor the quotient/remainder are (unless
// the obligation asks for exact nonlinear arithmetic) fresh integers constrained by the linear
// consequences of division only - an over-approximation: what is proved holds for the real
// operation, and a model relying on an impossible quotient does not survive native replay.
func (p *Path) bigDiv(op string, a, b *Term) *Term {
	tb := p.tb
	if b.c || p.E.Cfg.ExactNonlinear {
		switch op {
		case "Quo":
			return tb.IQuo(a, b)
		case "Rem":
			return tb.IRem(a, b)
		case "Div":
			return tb.IDiv(a, b)
		}
		return tb.IMod(a, b)
	}
	p.stub("big.Int division by a symbolic divisor => quotient/remainder abstracted to their linear consequences (sign, |q|<=|a|, |r|<|b|, q=0 iff |a|<|b|, b=1 => q=a)")
	key := op + "|" + a.s + "|" + b.s
	if t, ok := p.divCache[key]; ok {
		return t
	}
	p.ndiv++
	q := p.decl(fmt.Sprintf("absdiv_q%d", p.ndiv), SInt)
	r := p.decl(fmt.Sprintf("absdiv_r%d", p.ndiv), SInt)
	zero := IntConst64(0)
	aa, ab, aq, ar := tb.IAbs(a), tb.IAbs(b), tb.IAbs(q), tb.IAbs(r)
	ax := tb.And(tb.ILe(aq, aa), tb.ILt(ar, ab))
	ax = tb.And(ax, tb.Eq(tb.ILt(aa, ab), tb.Eq(q, zero)))
	ax = tb.And(ax, tb.Implies(tb.Eq(b, IntConst64(1)), tb.And(tb.Eq(q, a), tb.Eq(r, zero))))
	ax = tb.And(ax, tb.Implies(tb.Eq(a, b), tb.And(tb.Eq(q, IntConst64(1)), tb.Eq(r, zero))))
	switch op {
	case "Quo", "Rem": // truncated: sign(q) = sign(a)*sign(b), sign(r) = sign(a)
		neg := tb.mk(SBool, "xor", tb.ILt(a, zero), tb.ILt(b, zero))
		ax = tb.And(ax, tb.Implies(neg, tb.ILe(q, zero)))
		ax = tb.And(ax, tb.Implies(tb.Not(neg), tb.ILe(zero, q)))
		ax = tb.And(ax, tb.Implies(tb.ILe(zero, a), tb.ILe(zero, r)))
		ax = tb.And(ax, tb.Implies(tb.ILe(a, zero), tb.ILe(r, zero)))
	default: // Euclidean: 0 <= r
		ax = tb.And(ax, tb.ILe(zero, r))
		ax = tb.And(ax, tb.Implies(tb.And(tb.ILe(zero, a), tb.ILt(zero, b)), tb.ILe(zero, q)))
	}
	p.assertPC(ax)
	p.divCache["Quo|"+a.s+"|"+b.s], p.divCache["Rem|"+a.s+"|"+b.s] = q, r
	if op == "Div" || op == "Mod" {
		p.divCache["Div|"+a.s+"|"+b.s], p.divCache["Mod|"+a.s+"|"+b.s] = q, r
		delete(p.divCache, "Quo|"+a.s+"|"+b.s)
		delete(p.divCache, "Rem|"+a.s+"|"+b.s)
	}
	if op == "Quo" || op == "Div" {
		return q
	}
	return r
}

// tri builds the -1/0/+1 result of a three-way comparison, remembering its two conditions so
// that the usual "cmp < 0", "cmp == 0", ... tests fold to them without touching bit-vectors.
func (p *Path) tri(lt, gt *Term) *Term {
	tb := p.tb
	r := tb.Ite(lt, BVConst(^uint64(0), 64), tb.Ite(gt, BVConst(1, 64), BVConst(0, 64)))
	if r.c {
		return r
	}
	c := *r
	c.triLt, c.triGt = lt, gt
	return &c
}

func isErrorLike(p *Path, iv IfaceV) bool {
	if iv.T == p.E.opaqueErrT {
		return true
	}
	ms := p.E.P.Prog.MethodSets.MethodSet(iv.T)
	return ms.Lookup(nil, "Error") != nil
}

func (p *Path) sliceTerms(s SliceV) []*Term {
	r := make([]*Term, s.Len)
	for i := 0; i < s.Len; i++ {
		r[i] = p.sliceGet(s, i).(*Term)
	}
	return r
}

func (p *Path) lockViolation(fr *frame, pos token.Pos, msg string) {
	p.checkAssert(tFalse, "lock", msg, fr, pos)
}

// bytesToInt: big-endian bytes to Int.
func (p *Path) bytesToInt(bs []*Term) *Term {
	tb := p.tb
	r := IntConst64(0)
	// chunk by 8 bytes to keep bv2nat terms small
	for i := 0; i < len(bs); {
		n := len(bs) - i
		k := n % 8
		if k == 0 {
			k = 8
		}
		chunk := bs[i]
		for j := 1; j < k; j++ {
			chunk = tb.Concat(chunk, bs[i+j])
		}
		i += k
		sh := IntConst(new(big.Int).Lsh(big.NewInt(1), uint(8*k)))
		r = tb.IAdd(tb.IMul(r, sh), tb.BV2Int(chunk, false))
	}
	return r
}

// bigBytes: big-endian minimal byte representation of a non-negative Int.
func (p *Path) bigBytes(fr *frame, x *Term, pos token.Pos) Value {
	if x.c {
		b := x.b.Bytes()
		arr := make([]Value, len(b))
		for i := range b {
			arr[i] = byteConst(b[i])
		}
		return SliceV{O: p.newObj(&ArrayV{E: arr, Mut: true}, nil, "big.Bytes"), Len: len(b), Cap: len(b)}
	}
	tb := p.tb
	if p.E.Cfg.BigBlob {
		// ideal encoding: zero has no bytes, any other value a non-empty opaque byte string that determines it
		p.stub("big.Int.Bytes / SetBytes => ideal encoding (opaque bytes bound to the value; zero = no bytes)")
		if p.forkBool(tb.Eq(x, IntConst64(0)), fr, pos) {
			return SliceV{O: p.newObj(&ArrayV{E: nil, Mut: true}, nil, "big.Bytes"), Len: 0, Cap: 0}
		}
		b := p.uf("bigbytes", []*Term{x}, []Sort{BV(8)})[0]
		o := p.newObj(&ArrayV{E: []Value{b}, Mut: true}, nil, "big-blob")
		p.bigBlobs[o] = x
		return SliceV{O: o, Len: 1, Cap: 1}
	}
	maxB := p.E.Cfg.MaxBigBytes
	if maxB == 0 {
		maxB = 4
	}
	for n := 0; n <= maxB; n++ {
		// 256^(n-1) <= x < 256^n  (n=0: x == 0)
		var c *Term
		if n == 0 {
			c = tb.Eq(x, IntConst64(0))
		} else {
			c = tb.ILt(x, IntConst(new(big.Int).Lsh(big.NewInt(1), uint(8*n))))
		}
		if p.forkBool(c, fr, pos) {
			arr := make([]Value, n)
			if n > 0 {
				bv := tb.Int2BV(x, 8*n)
				if 8*n > 64 {
					p.unsupported(fr, pos, "big.Int.Bytes wider than 8 bytes")
				}
				for i := 0; i < n; i++ {
					arr[i] = tb.Extract(bv, 8*(n-i)-1, 8*(n-i-1))
				}
			}
			return SliceV{O: p.newObj(&ArrayV{E: arr, Mut: true}, nil, "big.Bytes"), Len: n, Cap: n}
		}
	}
	p.abort("inconclusive", fmt.Sprintf("big.Int.Bytes of a value wider than %d bytes (bound) at %s [%s]", maxB, p.where(fr, pos), callChain(fr, 6)))
	return nil
}

// uf applies an uninterpreted function (Ackermann style: functional consistency is
// asserted against all earlier applications of the same symbol on this path).
func (p *Path) uf(name string, args []*Term, res []Sort) []*Term {
	apps := p.ufs[name]
	// identical argument list => same result
	for _, a := range apps {
		if len(a.args) != len(args) {
			continue
		}
		same := true
		for i := range args {
			if a.args[i].S != args[i].S || a.args[i].s != args[i].s {
				same = false
				break
			}
		}
		if same {
			return a.res
		}
	}
	out := make([]*Term, len(res))
	for i, s := range res {
		out[i] = p.decl(fmt.Sprintf("uf_%s_%d_%d", name, len(apps), i), s)
	}
	for _, a := range apps {
		if len(a.args) != len(args) {
			continue
		}
		eq := tTrue
		ok := true
		for i := range args {
			if a.args[i].S != args[i].S {
				ok = false
				break
			}
			eq = p.tb.And(eq, p.tb.Eq(a.args[i], args[i]))
		}
		if !ok || (eq.c && eq.u == 0) {
			continue
		}
		same := tTrue
		for i := range out {
			if out[i].S.K == KFP {
				same = p.tb.And(same, p.tb.mk(SBool, "=", out[i], a.res[i]))
			} else {
				same = p.tb.And(same, p.tb.Eq(out[i], a.res[i]))
			}
		}
		p.assertPC(p.tb.Implies(eq, same))
	}
	p.ufs[name] = append(apps, ufApp{args, out})
	return out
}

func sortSliceIntrinsic(stable bool) intrinsicFn {
	return func(p *Path, fr *frame, fn *ssa.Function, args []Value, pos token.Pos) Value {
		// insertion sort calling the real less closure: what std sort does below 12 elements
		// (insertionSortCmpFunc / insertionSort_func), and stable by construction.
		iv := args[0].(IfaceV)
		s, ok := iv.V.(SliceV)
		if !ok {
			p.unsupported(fr, pos, "sort.Slice of non-slice")
		}
		if s.Len > 12 {
			p.note("sort.Slice over more than 12 elements modelled as insertion sort")
		}
		p.stub(fn.String() + " => insertion sort calling the real less closure")
		less := args[1]
		for i := 1; i < s.Len; i++ {
			for j := i; j > 0; j-- {
				r := p.callValue(fr, less, []Value{BVConst(uint64(j), 64), BVConst(uint64(j-1), 64)}, pos).(*Term)
				if !p.forkBool(r, fr, pos) {
					break
				}
				a, b := p.sliceGet(s, j), p.sliceGet(s, j-1)
				p.sliceSet(s, j, b)
				p.sliceSet(s, j-1, a)
			}
		}
		return nil
	}
}
