package sx

import (
	"fmt"
	"go/token"
	"go/types"

	"golang.org/x/tools/go/ssa"
)

// Ideal protobuf channel (DESIGN §3.3): proto.Marshal returns an opaque byte string bound to a
// proto3-normalised deep snapshot of the message; proto.Unmarshal of that byte string rebuilds
// the snapshot. The hand-written field mappings around it stay real code.

type protoBlob struct {
	typ  types.Type // message struct type (named)
	snap Value      // normalised *StructV
}

func isByteSlice(t types.Type) bool {
	if s, ok := t.Underlying().(*types.Slice); ok {
		if b, ok := s.Elem().Underlying().(*types.Basic); ok {
			return b.Kind() == types.Uint8
		}
	}
	return false
}

// protoNorm returns a deep, proto3-normalised copy of v (of Go type t) as a decoder would produce it.
func (p *Path) protoNorm(v Value, t types.Type, elem bool) Value {
	switch u := t.Underlying().(type) {
	case *types.Struct:
		sv := v.(*StructV)
		f := make([]Value, len(sv.F))
		for i := range f {
			fld := u.Field(i)
			if !fld.Exported() {
				f[i] = Zero(fld.Type())
				continue
			}
			f[i] = p.protoNorm(sv.F[i], fld.Type(), false)
		}
		return &StructV{f}
	case *types.Pointer:
		pv := p.rp(nil, v, token.NoPos)
		if pv.IsNil() {
			if elem { // nil element of a repeated message field decodes as an empty message
				return PtrV{O: p.newObj(Zero(u.Elem()), u.Elem(), "proto-elem")}
			}
			return PtrV{}
		}
		return PtrV{O: p.newObj(p.protoNorm(pv.Load(), u.Elem(), false), u.Elem(), "proto-msg")}
	case *types.Slice:
		s := v.(SliceV)
		if isByteSlice(t) {
			if s.Len == 0 {
				if elem {
					return SliceV{O: p.newObj(&ArrayV{E: nil, Mut: true}, nil, "proto-empty"), Len: 0, Cap: 0}
				}
				return SliceV{}
			}
			arr := make([]Value, s.Len)
			for i := range arr {
				arr[i] = p.sliceGet(s, i)
			}
			o := p.newObj(&ArrayV{E: arr, Mut: true}, nil, "proto-bytes")
			if s.O != nil && s.Off == 0 && s.Len == len(p.backing(s.O).E) {
				// a copy of an opaque encoding stays that encoding (nested messages, integers)
				if x, ok := p.bigBlobs[s.O]; ok {
					p.bigBlobs[o] = x
				}
				if pb, ok := p.protoBlobs[s.O]; ok {
					p.protoBlobs[o] = pb
				}
			}
			return SliceV{O: o, Len: s.Len, Cap: s.Len}
		}
		if s.Len == 0 {
			return SliceV{}
		}
		arr := make([]Value, s.Len)
		for i := range arr {
			arr[i] = p.protoNorm(p.sliceGet(s, i), u.Elem(), true)
		}
		return SliceV{O: p.newObj(&ArrayV{E: arr, Mut: true}, nil, "proto-repeated"), Len: s.Len, Cap: s.Len}
	}
	return v
}

// protoEmpty: the message encodes to zero bytes.
func (p *Path) protoEmpty(v Value, t types.Type) *Term {
	tb := p.tb
	switch u := t.Underlying().(type) {
	case *types.Struct:
		sv := v.(*StructV)
		r := tTrue
		for i := range sv.F {
			if !u.Field(i).Exported() {
				continue
			}
			r = tb.And(r, p.protoEmpty(sv.F[i], u.Field(i).Type()))
		}
		return r
	case *types.Pointer:
		return nilTerm(v.(PtrV))
	case *types.Slice:
		return BoolT(v.(SliceV).Len == 0)
	case *types.Basic:
		switch x := v.(type) {
		case StrV:
			return BoolT(len(x.B) == 0)
		case *Term:
			if x.S.K == KFP {
				// +0 only; -0 is encoded
				return tb.mk(SBool, "=", x, FPConst(0, x.S.W))
			}
			return tb.Eq(x, zeroTerm(x.S))
		}
	}
	panic(fmt.Sprintf("protoEmpty: %v", t))
}

func protoNominalLen(v Value) int {
	n := 0
	switch a := v.(type) {
	case *StructV:
		for _, f := range a.F {
			n += protoNominalLen(f)
		}
	case PtrV:
		if !a.IsNil() {
			n += 2 + protoNominalLen(a.Load())
		}
	case SliceV:
		if a.Len > 0 {
			n += 2 + a.Len
		}
	case StrV:
		if len(a.B) > 0 {
			n += 2 + len(a.B)
		}
	case *Term:
		n += 2
	}
	return n
}

func msgStructType(iv IfaceV) (types.Type, bool) {
	pt, ok := iv.T.(*types.Pointer)
	if !ok {
		return nil, false
	}
	if _, ok := pt.Elem().Underlying().(*types.Struct); !ok {
		return nil, false
	}
	return pt.Elem(), true
}

func registerProto(e *Engine) {
	marshal := func(p *Path, fr *frame, fn *ssa.Function, args []Value, pos token.Pos) Value {
		iv := args[len(args)-1].(IfaceV)
		errNil := IfaceV{}
		if iv.T == nil {
			return TupleV{SliceV{}, p.opaqueIface("proto", "proto: Marshal called with nil")}
		}
		mt, ok := msgStructType(iv)
		if !ok {
			p.unsupported(fr, pos, "proto.Marshal of non-struct message")
		}
		ptr := iv.V.(PtrV)
		if ptr.IsNil() {
			return TupleV{SliceV{}, p.opaqueIface("proto", "proto: Marshal called with nil")}
		}
		p.stub("proto.Marshal/Unmarshal => ideal channel (opaque bytes bound to a proto3-normalised snapshot)")
		snap := p.protoNorm(ptr.Load(), mt, false)
		if p.forkBool(p.protoEmpty(snap, mt), fr, pos) {
			return TupleV{SliceV{O: p.newObj(&ArrayV{E: nil, Mut: true}, nil, "proto-empty"), Len: 0, Cap: 0}, errNil}
		}
		n := protoNominalLen(snap)
		if n < 1 {
			n = 1
		}
		arr := make([]Value, n)
		p.nblob++
		for i := range arr {
			arr[i] = p.decl(fmt.Sprintf("protobytes_%d_%d", p.nblob, i), BV(8))
		}
		o := p.newObj(&ArrayV{E: arr, Mut: true}, nil, "proto-blob")
		p.protoBlobs[o] = protoBlob{mt, snap}
		return TupleV{SliceV{O: o, Len: n, Cap: n}, errNil}
	}
	unmarshal := func(p *Path, fr *frame, fn *ssa.Function, args []Value, pos token.Pos) Value {
		b := args[0].(SliceV)
		iv := args[1].(IfaceV)
		mt, ok := msgStructType(iv)
		if !ok || iv.V.(PtrV).IsNil() {
			p.unsupported(fr, pos, "proto.Unmarshal into non-struct or nil message")
		}
		dst := iv.V.(PtrV)
		if b.Len == 0 {
			dst.Store(Zero(mt))
			return IfaceV{}
		}
		if blob, ok := p.protoBlobs[b.O]; ok && b.Off == 0 && b.Len == len(p.backing(b.O).E) {
			if !types.Identical(blob.typ, mt) {
				p.unsupported(fr, pos, fmt.Sprintf("proto.Unmarshal of a %v encoding into %v", blob.typ, mt))
			}
			// fresh copy so that the decoded object does not alias the snapshot
			dst.Store(p.protoNorm(blob.snap, mt, false))
			return IfaceV{}
		}
		// undecodable garbage: the single byte 0xff (an unterminated varint tag) fails for every message
		if b.Len == 1 {
			if t := p.sliceGet(b, 0).(*Term); t.c && t.u == 0xff {
				return p.opaqueIface("proto", "proto: cannot parse invalid wire-format data")
			}
		}
		p.unsupported(fr, pos, "proto.Unmarshal of bytes that did not come from proto.Marshal (byte-level decoding is outside the encoding)")
		return nil
	}
	e.intrinsics["github.com/golang/protobuf/proto.Marshal"] = marshal
	e.intrinsics["github.com/golang/protobuf/proto.Unmarshal"] = unmarshal
	e.intrinsics["google.golang.org/protobuf/proto.Marshal"] = marshal
	e.intrinsics["google.golang.org/protobuf/proto.Unmarshal"] = unmarshal
}

// vProtoSame(a, b []byte) bool : both byte strings are encodings of structurally equal messages.
func apiProtoSame(p *Path, fr *frame, fn *ssa.Function, args []Value, pos token.Pos) Value {
	a, b := args[0].(SliceV), args[1].(SliceV)
	if a.Len == 0 || b.Len == 0 {
		return BoolT(a.Len == 0 && b.Len == 0)
	}
	ba, ok1 := p.protoBlobs[a.O]
	bb, ok2 := p.protoBlobs[b.O]
	if !ok1 || !ok2 {
		p.abort("inconclusive", "vProtoSame on bytes that are not proto encodings")
	}
	if !types.Identical(ba.typ, bb.typ) {
		return tFalse
	}
	return p.deepEq(ba.snap, bb.snap, 0)
}
