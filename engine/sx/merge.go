package sx

import (
	"fmt"
	"go/token"
	"strings"

	"golang.org/x/tools/go/ssa"
)

// State merging for small diamonds ("if c { return } ...", nil-or-zero helpers, guarded no-ops).
//
// At a symbolic branch whose two sides are both feasible the engine first tries to execute BOTH
// sides speculatively up to the branch's immediate post-dominator (or to the function's return),
// journaling every heap write, and to merge the two outcomes into one state with ite-terms.
// If anything is not mergeable (nested real fork, panic, harness API call, incompatible shapes,
// deleted map entries, budget) the attempt is undone and the branch forks as usual. Merging never
// changes what is explored - only how many paths it takes.

type journal struct {
	objs     map[*Obj]Value
	elems    map[*ArrayV]map[int]Value
	maps     map[*MapV][]MapEntry
	firstObj int // objects with a larger ID were allocated inside the attempt
}

func newJournal(firstObj int) *journal {
	return &journal{objs: map[*Obj]Value{}, elems: map[*ArrayV]map[int]Value{}, maps: map[*MapV][]MapEntry{}, firstObj: firstObj}
}

func (p *Path) journalObj(o *Obj) {
	for _, j := range p.journals {
		if _, ok := j.objs[o]; !ok {
			j.objs[o] = o.V
		}
	}
}

func (p *Path) journalElem(a *ArrayV, i int) {
	for _, j := range p.journals {
		m := j.elems[a]
		if m == nil {
			m = map[int]Value{}
			j.elems[a] = m
		}
		if _, ok := m[i]; !ok {
			m[i] = a.E[i]
		}
	}
}

func (p *Path) journalMap(m *MapV) {
	for _, j := range p.journals {
		if _, ok := j.maps[m]; !ok {
			j.maps[m] = m.E
		}
	}
}

// sideState is what one speculative side left behind.
type sideState struct {
	objs   map[*Obj]Value
	elems  map[*ArrayV]map[int]Value
	maps   map[*MapV][]MapEntry
	ret    bool
	result Value
	phis   []Value
	prev   *ssa.BasicBlock
	nondets []NondetRec
	ndNames, names map[string]int
}

type mergeAbort struct{ why string }

// ---- post-dominators ----

type pdomInfo struct {
	ipdom map[int]int // block index -> immediate post-dominator block index, -1 = exit
}

func (e *Engine) pdom(fn *ssa.Function) *pdomInfo {
	e.mu.Lock()
	defer e.mu.Unlock()
	if e.pdoms == nil {
		e.pdoms = map[*ssa.Function]*pdomInfo{}
	}
	if pi, ok := e.pdoms[fn]; ok {
		return pi
	}
	n := len(fn.Blocks)
	exit := n
	// post-dominator sets by iteration (functions are small)
	full := make([]bool, n+1)
	for i := range full {
		full[i] = true
	}
	pd := make([][]bool, n+1)
	for i := 0; i <= n; i++ {
		pd[i] = append([]bool(nil), full...)
	}
	pd[exit] = make([]bool, n+1)
	pd[exit][exit] = true
	succs := func(b int) []int {
		blk := fn.Blocks[b]
		if len(blk.Succs) == 0 {
			return []int{exit}
		}
		var r []int
		for _, s := range blk.Succs {
			r = append(r, s.Index)
		}
		return r
	}
	changed := true
	for changed {
		changed = false
		for b := n - 1; b >= 0; b-- {
			nw := append([]bool(nil), full...)
			for _, s := range succs(b) {
				for k := range nw {
					nw[k] = nw[k] && pd[s][k]
				}
			}
			nw[b] = true
			for k := range nw {
				if nw[k] != pd[b][k] {
					changed = true
				}
			}
			pd[b] = nw
		}
	}
	pi := &pdomInfo{ipdom: map[int]int{}}
	for b := 0; b < n; b++ {
		// immediate post-dominator: the strict post-dominator that is post-dominated by all others
		best := -2
		for c := 0; c <= n; c++ {
			if c == b || !pd[b][c] {
				continue
			}
			ok := true
			for d := 0; d <= n; d++ {
				if d == b || d == c || !pd[b][d] {
					continue
				}
				// c must be "closest": every other strict post-dominator d post-dominates c
				if !pd[c][d] {
					ok = false
					break
				}
			}
			if ok {
				best = c
				break
			}
		}
		if best == exit {
			best = -1
		}
		pi.ipdom[b] = best
	}
	e.pdoms[fn] = pi
	return pi
}

// ---- the attempt ----

const mergeBudgetSteps = 4000

// tryMerge attempts to execute both sides of the If at the end of fr.block and merge. On success
// fr is positioned after the merge (at the join block with phis assigned, or returned) and the
// function reports true.
func (p *Path) tryMerge(fr *frame, in *ssa.If, c *Term, pos token.Pos, commit bool) (merged bool, returned bool) {
	if len(p.journals) >= 3 || p.E.Cfg.NoMerge {
		return false, false
	}
	if commit && p.E.noMergeSite(in) {
		return false, false // this branch failed before for a reason that is a property of the code
	}
	pi := p.E.pdom(fr.fn)
	j := pi.ipdom[fr.block.Index]
	if j == -2 {
		return false, false
	}
	var join *ssa.BasicBlock
	if j >= 0 {
		join = fr.fn.Blocks[j]
	}
	p.mergeStats[0]++
	p.mergeWhy = ""
	firstObj := p.nObj
	ifBlock := fr.block
	savedPrev := fr.prev
	savedDefers := append([]deferred(nil), fr.defers...)
	if fr.visits == nil {
		fr.visits = map[int]int{}
	}
	savedVisits := map[int]int{}
	for k, v := range fr.visits {
		savedVisits[k] = v
	}
	savedEnv := make(map[ssa.Value]Value, len(fr.env))
	for k, v := range fr.env {
		savedEnv[k] = v
	}
	restoreFrame := func() {
		fr.block, fr.prev = ifBlock, savedPrev
		fr.defers = append([]deferred(nil), savedDefers...)
		fr.visits = map[int]int{}
		for k, v := range savedVisits {
			fr.visits[k] = v
		}
		fr.panicking = false
		fr.result = nil
		fr.hasMergedPhis, fr.mergedPhis = false, nil
		fr.env = make(map[ssa.Value]Value, len(savedEnv))
		for k, v := range savedEnv {
			fr.env[k] = v
		}
	}
	sides := [2]*sideState{}
	conds := [2]*Term{c, p.tb.Not(c)}
	ok := true
	why := ""
	for s := 0; s < 2 && ok; s++ {
		st, err := p.runSide(fr, ifBlock.Succs[s], join, conds[s], pos)
		if err == "" && !st.ret && len(fr.defers) != len(savedDefers) {
			err = "defer registered inside a side"
		}
		if err != "" {
			ok = false
			why = err
		}
		sides[s] = st
		restoreFrame()
	}
	if ok && sides[0].ret != sides[1].ret {
		ok, why = false, "one side returns, the other joins"
	}
	var mergedPhis []Value
	var mergedResult Value
	if ok {
		if sides[0].ret {
			v, good := p.mergeValue(c, sides[0].result, sides[1].result, 0)
			if !good {
				ok, why = false, "results not mergeable"
			}
			mergedResult = v
		} else {
			for i := range sides[0].phis {
				v, good := p.mergeValue(c, sides[0].phis[i], sides[1].phis[i], 0)
				if !good {
					ok, why = false, "phi values not mergeable"
					break
				}
				mergedPhis = append(mergedPhis, v)
			}
		}
	}
	// merge heaps
	type objW struct {
		o *Obj
		v Value
	}
	var objWrites []objW
	type elemW struct {
		a *ArrayV
		i int
		v Value
	}
	var elemWrites []elemW
	type mapW struct {
		m *MapV
		e []MapEntry
	}
	var mapWrites []mapW
	if ok {
		seenO := map[*Obj]bool{}
		for s := 0; s < 2 && ok; s++ {
			for o := range sides[s].objs {
				if seenO[o] {
					continue
				}
				seenO[o] = true
				va, inA := sides[0].objs[o]
				vb, inB := sides[1].objs[o]
				if !inA {
					va = o.V
				}
				if !inB {
					vb = o.V
				}
				if o.ID > firstObj {
					// allocated inside one side: keep what that side left
					if inA {
						objWrites = append(objWrites, objW{o, va})
					} else {
						objWrites = append(objWrites, objW{o, vb})
					}
					continue
				}
				v, good := p.mergeValue(c, va, vb, 0)
				if !good {
					ok, why = false, "heap object not mergeable: "+o.Name+" ("+p.mergeWhy+")"
					break
				}
				objWrites = append(objWrites, objW{o, v})
			}
		}
		seenA := map[*ArrayV]map[int]bool{}
		for s := 0; s < 2 && ok; s++ {
			for a, idxs := range sides[s].elems {
				for i := range idxs {
					if seenA[a] == nil {
						seenA[a] = map[int]bool{}
					}
					if seenA[a][i] {
						continue
					}
					seenA[a][i] = true
					va, inA := sides[0].elems[a][i]
					vb, inB := sides[1].elems[a][i]
					if !inA {
						va = a.E[i]
					}
					if !inB {
						vb = a.E[i]
					}
					v, good := p.mergeValue(c, va, vb, 0)
					if !good {
						ok, why = false, "array element not mergeable"
						break
					}
					elemWrites = append(elemWrites, elemW{a, i, v})
				}
			}
		}
		seenM := map[*MapV]bool{}
		for s := 0; s < 2 && ok; s++ {
			for m := range sides[s].maps {
				if seenM[m] {
					continue
				}
				seenM[m] = true
				ea, inA := sides[0].maps[m]
				eb, inB := sides[1].maps[m]
				if !inA {
					ea = m.E
				}
				if !inB {
					eb = m.E
				}
				ne, good := p.mergeMap(c, m.E, ea, eb)
				if !good {
					ok, why = false, "map not mergeable"
					break
				}
				mapWrites = append(mapWrites, mapW{m, ne})
			}
		}
	}
	p.lastMergeWhy = why
	if !ok {
		p.mergeStats[2]++
		if strings.HasPrefix(why, "harness API call vCover") || strings.HasPrefix(why, "harness API call vAssert") || strings.HasPrefix(why, "harness API call vObserve") || strings.HasPrefix(why, "explicit panic") || strings.HasPrefix(why, "concurrency") ||
			strings.HasPrefix(why, "loop inside") || strings.HasPrefix(why, "one side returns") || strings.HasPrefix(why, "defer registered") ||
			strings.HasPrefix(why, "assertion inside") {
			p.E.markNoMergeSite(in)
		}
		if p.E.Cfg.ProfileForks {
			if p.res.ForkSites == nil {
				p.res.ForkSites = map[string]int{}
			}
			p.res.ForkSites["merge-abort: "+why+" @ "+p.where(fr, pos)+" in "+frName(fr)]++
		}
		return false, false
	}
	if !commit {
		return false, false // dry run (replay of an attempt that had failed): effects on caches only
	}
	// commit: inputs created inside the sides stay inputs of the path
	for s := 0; s < 2; s++ {
		for _, nd := range sides[s].nondets {
			dup := false
			for _, old := range p.nondets {
				if old.Name == nd.Name {
					dup = true
					break
				}
			}
			if !dup {
				p.nondets = append(p.nondets, nd)
			}
		}
		for k, v := range sides[s].ndNames {
			if cur, ok := p.ndNames[k]; !ok || v > cur {
				p.ndNames[k] = v
			}
		}
		for k, v := range sides[s].names {
			if cur, ok := p.names[k]; !ok || v > cur {
				p.names[k] = v
			}
		}
	}
	for _, w := range objWrites {
		w.o.V = w.v
		if len(p.journals) > 0 {
			// an enclosing attempt must see this write too (old value was recorded on first write
			// inside the sides, which were journaled in all active journals)
		}
	}
	for _, w := range elemWrites {
		w.a.E[w.i] = w.v
	}
	for _, w := range mapWrites {
		w.m.E = w.e
	}
	p.mergeStats[1]++
	if sides[0].ret {
		fr.result = mergedResult
		fr.block = nil
		return true, true
	}
	// continue at the join block with the merged phi values
	fr.prev = nil
	fr.block = join
	fr.mergedPhis = mergedPhis
	fr.hasMergedPhis = true
	return true, false
}

// runSide executes one side of the branch under its condition; all effects are undone before returning.
func (p *Path) runSide(fr *frame, start, join *ssa.BasicBlock, cond *Term, pos token.Pos) (st *sideState, err string) {
	ifBlock := fr.block
	j := newJournal(p.nObj)
	p.journals = append(p.journals, j)
	savedSide := p.side
	if p.side == nil {
		p.side = cond
	} else {
		p.side = p.tb.And(p.side, cond)
	}
	p.sideKnown = append(p.sideKnown, map[string]bool{cond.s: true})
	savedMods := p.sideMods
	savedLocks := copyLocks(p.locks)
	savedFlags := map[string]bool{}
	for k, v := range p.flags {
		savedFlags[k] = v
	}
	savedAtom := map[string]Value{}
	for k, v := range p.atomVals {
		savedAtom[k] = v
	}
	// facts derived inside a side (UF applications, abstracted divisions) only hold under its condition
	savedUFs := map[string][]ufApp{}
	for k, v := range p.ufs {
		savedUFs[k] = v[:len(v):len(v)]
	}
	savedDiv := map[string]*Term{}
	for k, v := range p.divCache {
		savedDiv[k] = v
	}
	savedSync := map[string]*MapV{}
	for k, v := range p.syncMaps {
		savedSync[k] = v
	}
	savedSteps := p.steps
	savedNondets := len(p.nondets)
	savedNdNames := map[string]int{}
	for k, v := range p.ndNames {
		savedNdNames[k] = v
	}
	savedNames := map[string]int{}
	for k, v := range p.names {
		savedNames[k] = v
	}
	savedPending := len(p.pending)
	savedDecisions := len(p.decisions)
	savedEvents := len(p.events)
	st = &sideState{}
	func() {
		defer func() {
			if r := recover(); r != nil {
				switch x := r.(type) {
				case mergeAbort:
					err = x.why
				case goPanic:
					err = "panic inside a side: " + x.Msg
				case pathAbort:
					if x.Kind == "infeasible" {
						err = "side became infeasible"
					} else {
						panic(r)
					}
				default:
					panic(r)
				}
			}
		}()
		fr.prev, fr.block = fr.block, start
		p.runUntil(fr, join, ifBlock, savedSteps+mergeBudgetSteps)
		if fr.block == nil {
			st.ret = true
			st.result = fr.result
		} else if fr.hasMergedPhis {
			// an inner merge joined exactly at this attempt's join block: its merged phi values are this side's
			st.phis = fr.mergedPhis
			fr.hasMergedPhis, fr.mergedPhis = false, nil
			st.prev = fr.prev
		} else {
			// arrived at the join: evaluate its phis for this side
			for _, in := range join.Instrs {
				phi, isPhi := in.(*ssa.Phi)
				if !isPhi {
					break
				}
				idx := -1
				for i, pred := range join.Preds {
					if pred == fr.prev {
						idx = i
						break
					}
				}
				st.phis = append(st.phis, fr.get(phi.Edges[idx]))
			}
			st.prev = fr.prev
		}
	}()
	if err == "" {
		switch {
		case p.sideMods != savedMods:
			err = "side tables modified"
		case !sameLocks(savedLocks, p.locks):
			err = "unbalanced lock state"
		case len(p.pending) != savedPending || len(p.decisions) != savedDecisions:
			err = "decisions created inside a side"
		case len(p.events) != savedEvents:
			err = "event inside a side"
		}
	}
	// collect finals and undo
	st.objs, st.elems, st.maps = map[*Obj]Value{}, map[*ArrayV]map[int]Value{}, map[*MapV][]MapEntry{}
	for o, old := range j.objs {
		if o.ID > j.firstObj {
			continue // allocated inside this side: unreachable from the other side, keeps its final content
		}
		st.objs[o] = o.V
		o.V = old
	}
	for a, m := range j.elems {
		if a.born > j.firstObj {
			continue
		}
		st.elems[a] = map[int]Value{}
		for i, old := range m {
			st.elems[a][i] = a.E[i]
			a.E[i] = old
		}
	}
	for m, old := range j.maps {
		st.maps[m] = m.E
		m.E = old
	}
	p.journals = p.journals[:len(p.journals)-1]
	p.side = savedSide
	p.sideKnown = p.sideKnown[:len(p.sideKnown)-1]
	p.locks = savedLocks
	p.flags, p.atomVals, p.syncMaps = savedFlags, savedAtom, savedSync
	p.ufs, p.divCache = savedUFs, savedDiv
	st.nondets = append([]NondetRec(nil), p.nondets[min(savedNondets, len(p.nondets)):]...)
	st.ndNames, st.names = p.ndNames, p.names
	p.nondets = p.nondets[:min(savedNondets, len(p.nondets))]
	p.ndNames, p.names = savedNdNames, savedNames
	p.pending = p.pending[:min(savedPending, len(p.pending))]
	p.decisions = p.decisions[:min(savedDecisions, len(p.decisions))]
	p.events = p.events[:min(savedEvents, len(p.events))]
	p.sideMods = savedMods
	return st, err
}

func copyLocks(m map[string]int) map[string]int {
	r := make(map[string]int, len(m))
	for k, v := range m {
		r[k] = v
	}
	return r
}

func sameLocks(a, b map[string]int) bool {
	if len(a) != len(b) {
		return false
	}
	for k, v := range a {
		if b[k] != v {
			return false
		}
	}
	return true
}

// runUntil interprets blocks of fr until fr.block == stop (not executed) or the frame returns.
func (p *Path) runUntil(fr *frame, stop, ifBlock *ssa.BasicBlock, stepLimit int) {
	for fr.block != nil && fr.block != stop {
		blk := fr.block
		if blk.Dominates(ifBlock) {
			// a back edge: SSA values that dominate the branch would be redefined inside the side
			panic(mergeAbort{"loop back edge inside a side"})
		}
		fr.visits[blk.Index]++
		if fr.visits[blk.Index] > 64 {
			panic(mergeAbort{"loop inside a side"})
		}
		nphi := p.assignPhis(fr, blk)
		jumped := false
		for _, in := range blk.Instrs[nphi:] {
			p.steps++
			if p.steps > stepLimit {
				panic(mergeAbort{"budget"})
			}
			switch in.(type) {
			case *ssa.Panic:
				panic(mergeAbort{"explicit panic inside a side"})
			case *ssa.Go, *ssa.Select, *ssa.Send:
				panic(mergeAbort{"concurrency instruction inside a side"})
			}
			switch p.visit(fr, in) {
			case kJump:
				jumped = true
			case kReturn:
				return
			}
			if jumped {
				break
			}
		}
		if !jumped {
			panic("engine: block fell through inside a side")
		}
	}
}

// mergeValue builds ite(c, a, b) structurally.
func (p *Path) mergeValue(c *Term, a, b Value, depth int) (Value, bool) {
	v, ok := p.mergeValue1(c, a, b, depth)
	if !ok && p.mergeWhy == "" {
		p.mergeWhy = fmt.Sprintf("%T vs %T at depth %d: %s | %s", a, b, depth, p.describe(a), p.describe(b))
	}
	return v, ok
}

func (p *Path) mergeValue1(c *Term, a, b Value, depth int) (Value, bool) {
	tb := p.tb
	if depth > 8 {
		return nil, false
	}
	switch x := a.(type) {
	case nil:
		return nil, b == nil
	case *Term:
		y, ok := b.(*Term)
		if !ok || x.S != y.S {
			return nil, false
		}
		if x == y || x.s == y.s {
			return x, true
		}
		if x.S.K == KFP {
			return nil, false // floats stay concrete where the code has them concrete (decimal.NewFromFloat etc.)
		}
		return tb.Ite(c, x, y), true
	case BigV:
		y, ok := b.(BigV)
		if !ok {
			return nil, false
		}
		if x.T.s == y.T.s {
			return x, true
		}
		return BigV{tb.Ite(c, x.T, y.T)}, true
	case *StructV:
		y, ok := b.(*StructV)
		if !ok || len(x.F) != len(y.F) {
			return nil, false
		}
		if x == y {
			return x, true
		}
		f := make([]Value, len(x.F))
		for i := range f {
			v, good := p.mergeValue(c, x.F[i], y.F[i], depth+1)
			if !good {
				return nil, false
			}
			f[i] = v
		}
		return &StructV{f}, true
	case *ArrayV:
		y, ok := b.(*ArrayV)
		if !ok || len(x.E) != len(y.E) || x.Mut || y.Mut {
			if ok && x == y {
				return x, true
			}
			return nil, false
		}
		if x == y {
			return x, true
		}
		e := make([]Value, len(x.E))
		for i := range e {
			v, good := p.mergeValue(c, x.E[i], y.E[i], depth+1)
			if !good {
				return nil, false
			}
			e[i] = v
		}
		return &ArrayV{E: e}, true
	case StrV:
		y, ok := b.(StrV)
		if !ok || len(x.B) != len(y.B) {
			return nil, false
		}
		r := make([]*Term, len(x.B))
		for i := range r {
			if x.B[i].s == y.B[i].s {
				r[i] = x.B[i]
			} else {
				r[i] = tb.Ite(c, x.B[i], y.B[i])
			}
		}
		return StrV{r}, true
	case PtrV:
		y, ok := b.(PtrV)
		if !ok {
			return nil, false
		}
		xn, yn := nilTerm(x), nilTerm(y)
		if x.O == nil && y.O == nil {
			return PtrV{}, true
		}
		nilc := tb.Ite(c, xn, yn)
		mk := func(o *Obj, path []int) PtrV {
			if nilc.c {
				if nilc.u != 0 {
					return PtrV{}
				}
				return PtrV{O: o, Path: path}
			}
			return PtrV{O: o, Path: path, Nil: nilc}
		}
		if x.O == nil {
			return mk(y.O, y.Path), true
		}
		if y.O == nil {
			return mk(x.O, x.Path), true
		}
		if ptrEq(PtrV{O: x.O, Path: x.Path}, PtrV{O: y.O, Path: y.Path}) {
			return mk(x.O, x.Path), true
		}
		// two different big.Int objects: a fresh object holding the merged value (math/big values are
		// never compared by identity in the code under test; in-place mutation through an old alias
		// would not be seen - recorded as a stub)
		va, oka := PtrV{O: x.O, Path: x.Path}.Load().(BigV)
		vb, okb := PtrV{O: y.O, Path: y.Path}.Load().(BigV)
		if oka && okb {
			p.stub("merge of two *big.Int values at a join => fresh object holding ite(cond, a, b) (pointer identity not preserved)")
			return mk(p.newObj(BigV{tb.Ite(c, va.T, vb.T)}, nil, "merged-big"), nil), true
		}
		return nil, false
	case SliceV:
		y, ok := b.(SliceV)
		if !ok {
			return nil, false
		}
		if x.O == y.O && x.Off == y.Off && x.Len == y.Len && x.Cap == y.Cap {
			return x, true
		}
		return nil, false
	case *MapV:
		y, ok := b.(*MapV)
		return x, ok && x == y
	case IfaceV:
		y, ok := b.(IfaceV)
		if !ok {
			return nil, false
		}
		if x.T == nil && y.T == nil {
			return x, true
		}
		if x.T == nil || y.T == nil || x.T != y.T {
			return nil, false
		}
		v, good := p.mergeValue(c, x.V, y.V, depth+1)
		if !good {
			return nil, false
		}
		return IfaceV{T: x.T, V: v}, true
	case *FuncV:
		y, ok := b.(*FuncV)
		if !ok {
			return nil, false
		}
		if x == y {
			return x, true
		}
		if x == nil || y == nil {
			// nil on one side: a maybe-nil function value
			nz := x
			if nz == nil {
				nz = y
			}
			cp := *nz
			cp.Nil = tb.Ite(c, funcNil(x), funcNil(y))
			return &cp, true
		}
		if x.Fn != y.Fn || x.Builtin != y.Builtin || len(x.Env) != len(y.Env) || len(x.Data) != len(y.Data) {
			return nil, false
		}
		for i := range x.Env {
			if !sameValueRef(x.Env[i], y.Env[i]) {
				return nil, false
			}
		}
		for i := range x.Data {
			if !sameValueRef(x.Data[i], y.Data[i]) {
				return nil, false
			}
		}
		if x.Nil == nil && y.Nil == nil {
			return x, true
		}
		cp := *x
		cp.Nil = tb.Ite(c, funcNil(x), funcNil(y))
		if cp.Nil.c && cp.Nil.u == 0 {
			cp.Nil = nil
		}
		return &cp, true
	case TupleV:
		y, ok := b.(TupleV)
		if !ok || len(x) != len(y) {
			return nil, false
		}
		r := make(TupleV, len(x))
		for i := range r {
			v, good := p.mergeValue(c, x[i], y[i], depth+1)
			if !good {
				return nil, false
			}
			r[i] = v
		}
		return r, true
	case OpaqueV:
		y, ok := b.(OpaqueV)
		return x, ok && x.ID == y.ID && x.Kind == y.Kind
	case ChanV:
		y, ok := b.(ChanV)
		return x, ok && x.ID == y.ID
	case *iterV:
		y, ok := b.(*iterV)
		return x, ok && x == y
	}
	return nil, false
}

// mergeMap merges the entry lists two sides left for one map (orig = before the branch).
func (p *Path) mergeMap(c *Term, orig, ea, eb []MapEntry) ([]MapEntry, bool) {
	tb := p.tb
	same := func(k1, k2 Value) bool {
		t := p.eqValue(k1, k2)
		return t.c && t.u != 0
	}
	find := func(l []MapEntry, k Value) int {
		for i := range l {
			if same(l[i].K, k) {
				return i
			}
		}
		return -1
	}
	// deletions are not merged
	for _, e := range orig {
		if find(ea, e.K) < 0 || find(eb, e.K) < 0 {
			return nil, false
		}
	}
	var res []MapEntry
	for _, e := range ea {
		j := find(eb, e.K)
		if j < 0 {
			cond := c
			if e.Cond != nil {
				cond = tb.And(c, e.Cond)
			}
			res = append(res, MapEntry{K: e.K, V: e.V, Cond: cond})
			continue
		}
		v, good := p.mergeValue(c, e.V, eb[j].V, 0)
		if !good {
			return nil, false
		}
		var cond *Term
		if e.Cond != nil || eb[j].Cond != nil {
			ca, cb := tTrue, tTrue
			if e.Cond != nil {
				ca = e.Cond
			}
			if eb[j].Cond != nil {
				cb = eb[j].Cond
			}
			cond = tb.Ite(c, ca, cb)
			if cond.c && cond.u != 0 {
				cond = nil
			}
		}
		res = append(res, MapEntry{K: e.K, V: v, Cond: cond})
	}
	for _, e := range eb {
		if find(ea, e.K) >= 0 {
			continue
		}
		cond := tb.Not(c)
		if e.Cond != nil {
			cond = tb.And(cond, e.Cond)
		}
		res = append(res, MapEntry{K: e.K, V: e.V, Cond: cond})
	}
	return res, true
}

var _ = fmt.Sprintf

// sameValueRef: cheap identity check for captured values of closures.
func sameValueRef(a, b Value) bool {
	switch x := a.(type) {
	case PtrV:
		y, ok := b.(PtrV)
		return ok && x.O == y.O && x.Nil == y.Nil && ptrEq(PtrV{O: x.O, Path: x.Path}, PtrV{O: y.O, Path: y.Path})
	case *Term:
		y, ok := b.(*Term)
		return ok && (x == y || x.s == y.s)
	case *MapV:
		y, ok := b.(*MapV)
		return ok && x == y
	case *FuncV:
		y, ok := b.(*FuncV)
		return ok && x == y
	case SliceV:
		y, ok := b.(SliceV)
		return ok && x.O == y.O && x.Off == y.Off && x.Len == y.Len
	case *StructV:
		y, ok := b.(*StructV)
		return ok && x == y
	case *ArrayV:
		y, ok := b.(*ArrayV)
		return ok && x == y
	case IfaceV:
		y, ok := b.(IfaceV)
		return ok && x.T == y.T && sameValueRef(x.V, y.V)
	case nil:
		return b == nil
	}
	return false
}

func (e *Engine) noMergeSite(in *ssa.If) bool {
	e.mu.Lock()
	defer e.mu.Unlock()
	return e.noMerge[in]
}

func (e *Engine) markNoMergeSite(in *ssa.If) {
	e.mu.Lock()
	if e.noMerge == nil {
		e.noMerge = map[*ssa.If]bool{}
	}
	e.noMerge[in] = true
	e.mu.Unlock()
}
