package sx

import (
	"fmt"
	"strconv"
	"go/token"
	"go/types"
	"os"
	"path/filepath"
	"runtime/debug"
	"sort"
	"strings"
	"sync"
	"time"

	"golang.org/x/tools/go/ssa"
)

type Config struct {
	MaxDepth       int
	MaxBlockVisits int
	MaxSteps       int
	MaxDecisions   int
	MaxPaths       int
	MaxSliceLen    int
	MaxPermute     int
	MaxBigBytes    int
	BigBlob        bool // big.Int.Bytes of a symbolic value = opaque bytes bound to the value (ideal encoding)
	Thorough       bool
	NoMerge        bool
	AssertTag      string
	ExactNonlinear bool
	NoBigMulSplit  bool
	Workers        int
	SolverTimeoutMs int
	Solver         string
	PanicIsViolation bool // uncaught Go panic reaching the harness top = violation
	Concrete       map[string]string // concolic mode: nondet name -> value
	LogDir         string
	StopAtFirstViolation bool
	ProfileForks   bool
	Witnesses      int // collect up to this many per-path witness inputs (translator validation)
	IsKnown func(v Violation) bool
}

func DefaultConfig() Config {
	return Config{MaxDepth: 200, MaxBlockVisits: 5000, MaxSteps: 20000000, MaxDecisions: 600, MaxPaths: 200000,
		MaxSliceLen: 8, MaxPermute: 4, Workers: 16, SolverTimeoutMs: 20000, Solver: "z3", PanicIsViolation: true}
}

type intrinsicFn func(p *Path, fr *frame, fn *ssa.Function, args []Value, pos token.Pos) Value

type Engine struct {
	P          *Program
	Cfg        Config
	overrideFn map[*ssa.Function]*ssa.Function
	intrinsics map[string]intrinsicFn
	initDone   map[*ssa.Package]bool
	initGlobals map[*ssa.Global]*Obj
	initNObj   int
	initNotes  map[string]bool
	opaqueErrT types.Type
	apiFuncs   map[*ssa.Function]string
	mu         sync.Mutex
	InitSec    float64
	pdoms      map[*ssa.Function]*pdomInfo
	noMerge    map[*ssa.If]bool
	pathsSeen, witnessTaken int
	InitIncomplete []string
}

type NondetRec struct {
	Name string
	Kind string // bool,u8,...,big,bytes
	Terms []*Term
}

type Violation struct {
	Kind    string `json:"kind"` // assert, panic
	Msg     string `json:"msg"`
	Where   string `json:"where"`
	Model   map[string]string `json:"model"`
	Decisions []int `json:"decisions"`
	Choices map[string]int `json:"choices,omitempty"`
	Replayable bool `json:"replayable"`
}

type PathResult struct {
	Status    string // ok, infeasible, inconclusive, panic
	Reason    string
	Decisions []int
	Covers    map[string]bool
	Violations []Violation
	Funcs     map[string]bool
	Stubs     map[string]bool
	Notes     map[string]bool
	Events    []string
	Observations map[string]string
	AssertsChecked, AssertsDischarged, AssertsConst, AssertsSkipped int
	Steps     int
	Forks     int
	Assumes   []string
	Recovered []string
	Sat, Unsat, Unknown int
	SolverSecs float64
	Witness   *Witness
	ForkSites map[string]int
	MergeStats [3]int
}

// Witness is a concrete input (solver model) that drives execution down one explored path,
// together with what the symbolic run says must be observed there.
type Witness struct {
	Model  map[string]string `json:"model"`
	Covers []string          `json:"covers"`
	Obs    map[string]string `json:"observations"`
}

type Path struct {
	E       *Engine
	tb      *TB
	S       *Solver
	globals map[*ssa.Global]*Obj
	pc      []*Term
	prefix  []int
	decisions []int
	pending [][]int
	nObj    int
	steps   int
	nondets []NondetRec
	names   map[string]int
	funcs   map[string]bool
	stubs   map[string]bool
	notes   map[string]bool
	events  []string
	covers  map[string]bool
	obs     map[string]string
	views   map[string]*Obj
	viewOf  map[*Obj]PtrV
	inOverride map[*ssa.Function]bool
	mapOrderNondet bool
	recovered []string
	res     *PathResult
	choices map[string]int
	ufs     map[string][]ufApp
	declared map[string]bool
	mutexes map[*Obj]int
	assumes []string
	ndNames map[string]int
	nrand   int
	chans   map[int]*chanState
	decWhere []string
	expWhere []string
	journals []*journal
	side    *Term // conjunction of the branch conditions of the merge attempts in progress
	sideKnown []map[string]bool
	sideMods int
	mergeWhy string
	lastMergeWhy string
	mergeStats [3]int // attempted, merged, aborted
	divCache map[string]*Term
	ndiv    int
	protoBlobs map[*Obj]protoBlob
	bigBlobs   map[*Obj]*Term // opaque big-endian encodings of non-zero integers (obligation option bigblob=1)
	lockEdges  map[string]bool // "a -> b": mutex b was acquired while a was held (lock-order graph of this path)
	nblob   int
	obsTerms []obsTerm
	knownTrue map[string]bool
	inInit  bool
	lastPanic string
	locks   map[string]int
	flags   map[string]bool
	syncMaps map[string]*MapV
	atomVals map[string]Value
}

type chanState struct {
	cap int
	buf []Value
}

type ufApp struct {
	args []*Term
	res  []*Term
}

func (p *Path) note(s string) { p.notes[s] = true }

// decl declares a fresh solver constant.
func (p *Path) decl(name string, s Sort) *Term {
	name = sanitize(name)
	if n, ok := p.names[name]; ok {
		p.names[name] = n + 1
		name = fmt.Sprintf("%s#%d", name, n+1)
	} else {
		p.names[name] = 0
	}
	sym := "|v_" + name + "|"
	if p.S != nil && !p.declared[sym] {
		p.declared[sym] = true
		p.S.Send(fmt.Sprintf("(declare-fun %s () %s)", sym, s.SMT()))
	}
	return &Term{S: s, s: sym}
}

func sanitize(s string) string {
	s = strings.ReplaceAll(s, "|", "_")
	s = strings.ReplaceAll(s, "\\", "_")
	return s
}

func (p *Path) assertPC(t *Term) {
	if t.c {
		if t.u == 0 {
			p.abort("infeasible", "constant false assumption")
		}
		return
	}
	if p.side != nil {
		// inside a merge attempt: the fact only holds under the side condition
		p.sideKnown[len(p.sideKnown)-1][t.s] = true
		if p.S != nil {
			p.S.Send("(assert (=> " + p.side.s + " " + t.s + "))")
		}
		return
	}
	p.pc = append(p.pc, t)
	p.knownTrue[t.s] = true
	if p.S != nil {
		p.S.Send("(assert " + t.s + ")")
	}
}

// forkBoolQuiet: true only when the condition is already implied by the path condition (no fork, no log).
func (p *Path) forkBoolQuiet(c *Term) bool {
	if c.c {
		return c.u != 0
	}
	if p.S == nil || p.side != nil {
		return false
	}
	return p.S.CheckAssuming(p.tb.Not(c).s) == Unsat
}

func (p *Path) isKnown(s string) bool {
	if p.knownTrue[s] {
		return true
	}
	for _, m := range p.sideKnown {
		if m[s] {
			return true
		}
	}
	return false
}

type brResult int

const (
	brFalse brResult = iota
	brTrue
	brMergedJoin
	brMergedReturn
)

// branch decides a symbolic If: known / forced / merged / forked.
func (p *Path) branch(fr *frame, in *ssa.If, c *Term, pos token.Pos) brResult {
	if c.c {
		if c.u != 0 {
			return brTrue
		}
		return brFalse
	}
	if p.S == nil {
		panic("engine: symbolic condition in concrete mode: " + c.s)
	}
	nc := p.tb.Not(c)
	if p.isKnown(c.s) {
		return brTrue
	}
	if p.isKnown(nc.s) {
		return brFalse
	}
	if p.side != nil {
		// inside a merge attempt: no decisions are logged. Merging needs no feasibility knowledge
		// (an infeasible side only contributes a dead ite branch), so it is tried first.
		if m, ret := p.tryMerge(fr, in, c, pos, true); m {
			if ret {
				return brMergedReturn
			}
			return brMergedJoin
		}
		rt := p.S.CheckAssumingK("branch-in-side", "(and " + p.side.s + " " + c.s + ")")
		rf := p.S.CheckAssumingK("branch-in-side", "(and " + p.side.s + " " + nc.s + ")")
		switch {
		case rt != Unsat && rf != Unsat:
			panic(mergeAbort{"nested fork"})
		case rt != Unsat:
			p.sideKnown[len(p.sideKnown)-1][c.s] = true
			return brTrue
		case rf != Unsat:
			p.sideKnown[len(p.sideKnown)-1][nc.s] = true
			return brFalse
		}
		panic(mergeAbort{"infeasible side"})
	}
	di := len(p.decisions)
	if di < len(p.prefix) {
		d := p.prefix[di]
		if d == 4 {
			p.decisions = append(p.decisions, 4)
			p.logDec("branch@" + p.where(fr, pos))
			m, ret := p.tryMerge(fr, in, c, pos, true)
			if !m {
				p.decisions = p.decisions[:di]
				p.abort("inconclusive", "a merge recorded for this prefix could not be reproduced at "+p.where(fr, pos)+": "+p.lastMergeWhy)
			}
			if ret {
				return brMergedReturn
			}
			return brMergedJoin
		}
		if d == 5 {
			// the original run tried to merge here and failed: repeat the attempt (without committing)
			// so that term names and caches evolve exactly as they did then
			p.decisions = append(p.decisions, 5)
			p.logDec("branch@" + p.where(fr, pos))
			p.tryMerge(fr, in, c, pos, false)
		}
		if p.forkBool(c, fr, pos) {
			return brTrue
		}
		return brFalse
	}
	if di >= p.E.Cfg.MaxDecisions {
		p.abort("inconclusive", fmt.Sprintf("decision depth %d exceeded (unwinding limit) at %s", p.E.Cfg.MaxDecisions, p.where(fr, pos)))
	}
	// merging first: it needs no feasibility knowledge and saves both queries when it succeeds
	if p.E.Cfg.NoMerge || p.E.noMergeSite(in) {
		// no attempt, nothing logged
	} else {
		p.decisions = append(p.decisions, 4)
		p.logDec("branch@" + p.where(fr, pos))
		if m, ret := p.tryMerge(fr, in, c, pos, true); m {
			if ret {
				return brMergedReturn
			}
			return brMergedJoin
		}
		p.decisions[di] = 5 // attempted and failed: replays repeat the attempt
		di++
	}
	rt := p.S.CheckAssumingK("branch", c.s)
	rf := p.S.CheckAssumingK("branch", nc.s)
	if rt == Unknown || rf == Unknown {
		p.note("solver-unknown-at-branch:" + p.where(fr, pos))
		p.res.Unknown++
	}
	tOK, fOK := rt != Unsat, rf != Unsat
	switch {
	case tOK && fOK:
		p.res.Forks++
		if p.E.Cfg.ProfileForks {
			if p.res.ForkSites == nil {
				p.res.ForkSites = map[string]int{}
			}
			p.res.ForkSites[p.where(fr, pos)+" in "+frName(fr)]++
		}
		alt := make([]int, di+1)
		copy(alt, p.decisions)
		alt[di] = 0
		p.decisions = append(p.decisions, 1)
		p.logDec("fork@" + p.where(fr, pos))
		p.logPending(alt)
		p.pending = append(p.pending, alt)
		p.assertPC(c)
		return brTrue
	case tOK:
		p.decisions = append(p.decisions, 3)
		p.logDec("fork@" + p.where(fr, pos))
		p.assertPC(c)
		return brTrue
	case fOK:
		p.decisions = append(p.decisions, 2)
		p.logDec("fork@" + p.where(fr, pos))
		p.assertPC(nc)
		return brFalse
	}
	p.abort("infeasible", "both branch sides infeasible at "+p.where(fr, pos))
	return brFalse
}

// forkBool decides a symbolic condition, forking the path when both sides are feasible.
func (p *Path) forkBool(c *Term, fr *frame, pos token.Pos) bool {
	if c.c {
		return c.u != 0
	}
	if p.S == nil {
		panic("engine: symbolic condition in concrete mode: " + c.s)
	}
	if p.isKnown(c.s) {
		return true
	}
	if p.isKnown(p.tb.Not(c).s) {
		return false
	}
	if p.side != nil {
		// a fork that is not a branch instruction cannot be merged: only forced outcomes are allowed
		nc := p.tb.Not(c)
		rt := p.S.CheckAssumingK("fork-in-side", "(and " + p.side.s + " " + c.s + ")")
		rf := p.S.CheckAssumingK("fork-in-side", "(and " + p.side.s + " " + nc.s + ")")
		switch {
		case rt != Unsat && rf != Unsat:
			panic(mergeAbort{"non-branch fork"})
		case rt != Unsat:
			p.sideKnown[len(p.sideKnown)-1][c.s] = true
			return true
		case rf != Unsat:
			p.sideKnown[len(p.sideKnown)-1][nc.s] = true
			return false
		}
		panic(mergeAbort{"infeasible side"})
	}
	di := len(p.decisions)
	if di < len(p.prefix) {
		d := p.prefix[di]
		p.decisions = append(p.decisions, d)
		p.logDec("fork@" + p.where(fr, pos))
		if d&1 == 1 {
			p.assertPC(c)
			return true
		}
		p.assertPC(p.tb.Not(c))
		return false
	}
	if di >= p.E.Cfg.MaxDecisions {
		p.abort("inconclusive", fmt.Sprintf("decision depth %d exceeded (unwinding limit) at %s", p.E.Cfg.MaxDecisions, p.where(fr, pos)))
	}
	nc := p.tb.Not(c)
	rt := p.S.CheckAssumingK("fork", c.s)
	rf := p.S.CheckAssumingK("fork", nc.s)
	if rt == Unknown || rf == Unknown {
		p.note("solver-unknown-at-branch:" + p.where(fr, pos))
		p.res.Unknown++
	}
	tOK := rt != Unsat
	fOK := rf != Unsat
	switch {
	case tOK && fOK:
		p.res.Forks++
		if p.E.Cfg.ProfileForks {
			if p.res.ForkSites == nil {
				p.res.ForkSites = map[string]int{}
			}
			p.res.ForkSites[p.where(fr, pos)+" in "+frName(fr)]++
		}
		alt := make([]int, di+1)
		copy(alt, p.decisions)
		alt[di] = 0
		p.decisions = append(p.decisions, 1)
		p.logDec("fork@" + p.where(fr, pos))
		p.logPending(alt)
		p.pending = append(p.pending, alt)
		p.assertPC(c)
		return true
	case tOK:
		p.decisions = append(p.decisions, 3) // forced true
		p.logDec("fork@" + p.where(fr, pos))
		p.assertPC(c)
		return true
	case fOK:
		p.decisions = append(p.decisions, 2) // forced false
		p.logDec("fork@" + p.where(fr, pos))
		p.assertPC(nc)
		return false
	}
	p.abort("infeasible", "both branch sides infeasible at "+p.where(fr, pos))
	return false
}

// choose picks one of n alternatives (all feasible by construction), forking.
var alignOn = os.Getenv("VERIF_ALIGN") != ""
var alignMu sync.Mutex
var alignTab = map[string][]string{}

func prefixKey(pre []int) string { return fmt.Sprint(pre) }

// logDec keeps, for debugging decision-log alignment, where each decision was taken.
func (p *Path) logDec(where string) {
	if !alignOn {
		return
	}
	i := len(p.decisions) - 1
	for len(p.decWhere) <= i {
		p.decWhere = append(p.decWhere, "")
	}
	p.decWhere = p.decWhere[:i+1]
	p.decWhere[i] = where
	if i < len(p.expWhere) && p.expWhere[i] != "" && p.expWhere[i] != where {
		lo := i - 8
		if lo < 0 {
			lo = 0
		}
		fmt.Fprintf(os.Stderr, "MISALIGN at %d\n  recorded: %v\n  replayed: %v + %s\n  prefix: %v\n", i, p.expWhere[lo:min(i+3, len(p.expWhere))], p.decWhere[lo:i], where, p.prefix[lo:min(i+3, len(p.prefix))])
		p.abort("inconclusive", fmt.Sprintf("decision log misaligned at %d: recorded at %s, replayed at %s", i, p.expWhere[i], where))
	}
}

func (p *Path) logPending(alt []int) {
	if !alignOn {
		return
	}
	alignMu.Lock()
	w := append([]string(nil), p.decWhere...)
	for len(w) < len(alt) {
		w = append(w, "")
	}
	alignTab[prefixKey(alt)] = w[:len(alt)]
	alignMu.Unlock()
}

func frName(fr *frame) string {
	if fr == nil {
		return "?"
	}
	return fr.fn.Name()
}

func (p *Path) choose(n int, what string) int {
	if n <= 1 {
		return 0
	}
	if p.side != nil {
		panic(mergeAbort{"choice inside a side"})
	}
	di := len(p.decisions)
	if di < len(p.prefix) {
		d := p.prefix[di]
		p.decisions = append(p.decisions, d)
		p.logDec("choice:" + what)
		return d >> 2
	}
	if p.S == nil {
		// concrete mode: configured or 0
		p.decisions = append(p.decisions, 0)
		return 0
	}
	if di >= p.E.Cfg.MaxDecisions {
		p.abort("inconclusive", "decision depth exceeded in choice "+what)
	}
	p.decisions = append(p.decisions, 0)
	p.logDec("choice:" + what)
	p.decisions = p.decisions[:di]
	for i := 1; i < n; i++ {
		alt := make([]int, di+1)
		copy(alt, p.decisions)
		alt[di] = i << 2
		p.logPending(alt)
		p.pending = append(p.pending, alt)
	}
	p.res.Forks += n - 1
	if p.E.Cfg.ProfileForks {
		if p.res.ForkSites == nil {
			p.res.ForkSites = map[string]int{}
		}
		p.res.ForkSites["choice:"+what] += n - 1
	}
	p.decisions = append(p.decisions, 0)
	return 0
}

// concretize returns a concrete value of t (an int-typed bit-vector), forking over the
// feasible values; candidates come from solver models so each value costs O(1) queries.
func (p *Path) concretize(t *Term, signed bool, fr *frame, pos token.Pos) int64 {
	if t.c {
		if signed {
			return sext64(t.u, t.S.W)
		}
		return int64(t.u)
	}
	if p.side != nil {
		panic(mergeAbort{"concretization inside a side"})
	}
	for {
		var v int64
		di := len(p.decisions)
		if di < len(p.prefix) {
			v = int64(p.prefix[di] >> 2)
			p.decisions = append(p.decisions, p.prefix[di])
			p.logDec("concretize@" + p.where(fr, pos))
		} else {
			if di >= p.E.Cfg.MaxDecisions {
				p.abort("inconclusive", fmt.Sprintf("decision depth %d exceeded while concretizing at %s", p.E.Cfg.MaxDecisions, p.where(fr, pos)))
			}
			r := p.S.Check()
			if r == Unsat {
				p.abort("infeasible", "no value left while concretizing")
			}
			if r == Unknown {
				p.abort("inconclusive", "solver unknown while concretizing at "+p.where(fr, pos))
			}
			vals := p.S.GetValues([]string{t.s})
			ms := parseModelValue(vals[t.s], t.S)
			u, err := strconv.ParseUint(ms, 10, 64)
			if err != nil {
				p.abort("inconclusive", "cannot read model value "+vals[t.s])
			}
			if signed {
				v = sext64(u, t.S.W)
			} else {
				v = int64(u)
			}
			p.decisions = append(p.decisions, int(v)<<2)
			p.logDec("concretize@" + p.where(fr, pos))
		}
		if p.forkBool(p.tb.Eq(t, BVConst(uint64(v), t.S.W)), fr, pos) {
			return v
		}
	}
}

func (p *Path) model() map[string]string {
	m := map[string]string{}
	for _, nd := range p.nondets {
		var ts []string
		for _, t := range nd.Terms {
			if !t.c {
				ts = append(ts, t.s)
			}
		}
		vals := p.S.GetValues(ts)
		var parts []string
		for _, t := range nd.Terms {
			if t.c {
				parts = append(parts, constStr(t))
			} else {
				parts = append(parts, parseModelValue(vals[t.s], t.S))
			}
		}
		m[nd.Name] = nd.Kind + ":" + strings.Join(parts, ",")
	}
	return m
}

func constStr(t *Term) string {
	switch t.S.K {
	case KBool:
		if t.u != 0 {
			return "true"
		}
		return "false"
	case KBV:
		return fmt.Sprint(t.u)
	case KInt:
		return t.b.String()
	case KFP:
		return fmt.Sprint(t.f)
	}
	return "?"
}

// checkAssert discharges an assertion on the current path.
func (p *Path) checkAssert(c *Term, kind, msg string, fr *frame, pos token.Pos) {
	if p.side != nil {
		panic(mergeAbort{"assertion inside a side"})
	}
	if c.c {
		p.res.AssertsConst++
		if c.u != 0 {
			return
		}
		// definite failure on this path
		v := Violation{Kind: kind, Msg: msg, Where: p.where(fr, pos), Decisions: append([]int(nil), p.decisions...), Choices: copyChoices(p.choices)}
		if p.S != nil {
			if p.S.Check() == Sat {
				v.Model = p.model()
				v.Replayable = true
			} else {
				// path condition itself infeasible or unknown
				p.abort("infeasible", "assertion on infeasible path")
			}
		} else {
			v.Model = map[string]string{}
			v.Replayable = true
		}
		p.res.Violations = append(p.res.Violations, v)
		p.abort("stop", "assertion failed: "+msg)
	}
	p.res.AssertsChecked++
	nc := p.tb.Not(c)
	p.S.Send("(push 1)")
	p.S.Send("(assert " + nc.s + ")")
	r := p.S.Check()
	switch r {
	case Unsat:
		p.res.AssertsDischarged++
		p.S.Send("(pop 1)")
	case Sat:
		v := Violation{Kind: kind, Msg: msg, Where: p.where(fr, pos), Decisions: append([]int(nil), p.decisions...), Choices: copyChoices(p.choices), Replayable: true}
		v.Model = p.model()
		p.S.Send("(pop 1)")
		p.res.Violations = append(p.res.Violations, v)
	default:
		p.S.Send("(pop 1)")
		p.note("solver-unknown-at-assert:" + msg + "@" + p.where(fr, pos))
		p.res.Unknown++
		p.res.Status = "inconclusive"
		p.res.Reason = "solver unknown at assertion " + msg
	}
	// continue under the assumption that the assertion holds
	p.assertPC(c)
}

func copyChoices(m map[string]int) map[string]int {
	r := map[string]int{}
	for k, v := range m {
		r[k] = v
	}
	return r
}

// ---- engine set-up ----

func NewEngine(P *Program, cfg Config, sets []string) (*Engine, error) {
	e := &Engine{P: P, Cfg: cfg, overrideFn: map[*ssa.Function]*ssa.Function{}, intrinsics: map[string]intrinsicFn{},
		initDone: map[*ssa.Package]bool{}, apiFuncs: map[*ssa.Function]string{}, initNotes: map[string]bool{}}
	// a private named type standing for engine-made error values
	tn := types.NewTypeName(token.NoPos, nil, "verifOpaqueError", nil)
	e.opaqueErrT = types.NewNamed(tn, types.NewStruct(nil, nil), nil)
	registerIntrinsics(e)
	registerProto(e)
	if len(P.BadDirectives) > 0 {
		return nil, fmt.Errorf("HARNESS-ERROR malformed directive: %v", P.BadDirectives)
	}
	merged := map[string]string{}
	for _, set := range sets {
		if set == "" {
			continue
		}
		m, ok := P.Overrides[set]
		if !ok {
			return nil, fmt.Errorf("HARNESS-ERROR unknown override set %q", set)
		}
		for k, v := range m {
			merged[k] = v
		}
	}
	for target, repl := range merged {
		tf := P.FuncByName(target)
		rf := P.FuncByName(repl)
		if tf == nil {
			return nil, fmt.Errorf("HARNESS-ERROR override target not found: %s", target)
		}
		if rf == nil {
			return nil, fmt.Errorf("HARNESS-ERROR override replacement not found: %s", repl)
		}
		e.overrideFn[tf] = rf
	}
	// harness API functions
	for _, pkg := range P.Pkgs {
		for _, m := range pkg.Members {
			fn, ok := m.(*ssa.Function)
			if !ok {
				continue
			}
			file := filepath.Base(P.Fset.Position(fn.Pos()).Filename)
			if file == "zz_verif_api.go" {
				e.apiFuncs[fn] = fn.Name()
			}
		}
	}
	return e, nil
}

// RunInit executes the package initialisers of every root package once, concretely.
func (e *Engine) RunInit() (err error) {
	t0 := time.Now()
	p := e.newPath(nil, nil)
	p.globals = map[*ssa.Global]*Obj{}
	p.inInit = true
	saveBV := e.Cfg.MaxBlockVisits
	e.Cfg.MaxBlockVisits = 1 << 30
	defer func() { e.Cfg.MaxBlockVisits = saveBV }()
	defer func() {
		if r := recover(); r != nil {
			err = fmt.Errorf("init failed: %v", describePanic(r))
		}
	}()
	// order: dependencies first
	var order []*ssa.Package
	seen := map[*types.Package]bool{}
	var visit func(tp *types.Package)
	visit = func(tp *types.Package) {
		if seen[tp] {
			return
		}
		seen[tp] = true
		for _, imp := range tp.Imports() {
			visit(imp)
		}
		if sp := e.P.Prog.Package(tp); sp != nil {
			if _, isRoot := e.P.Pkgs[tp.Path()]; isRoot {
				order = append(order, sp)
			}
		}
	}
	var paths []string
	for path := range e.P.Pkgs {
		paths = append(paths, path)
	}
	sort.Strings(paths)
	for _, path := range paths {
		visit(e.P.Pkgs[path].Pkg)
	}
	for _, sp := range order {
		initFn := sp.Func("init")
		e.initDone[sp] = true
		if initFn == nil || initFn.Blocks == nil {
			continue
		}
		tp := time.Now()
		func() {
			defer func() {
				if d := time.Since(tp).Seconds(); d > 0.3 && os.Getenv("VERIF_DEBUG") != "" {
					fmt.Printf("init %s took %.1fs steps=%d\n", sp.Pkg.Path(), d, p.steps)
				}
				if r := recover(); r != nil {
					e.InitIncomplete = append(e.InitIncomplete, sp.Pkg.Path()+": "+describePanic(r))
				}
			}()
			p.callSSA(nil, initFn, nil, nil)
		}()
	}
	e.initGlobals = p.globals
	e.initNObj = p.nObj
	e.initNotes = p.notes
	e.InitSec = time.Since(t0).Seconds()
	return nil
}

func (e *Engine) takeWitnessSlot() bool {
	e.mu.Lock()
	defer e.mu.Unlock()
	e.pathsSeen++
	// spread the samples over the exploration: take the first few, then every k-th
	if e.witnessTaken >= e.Cfg.Witnesses {
		return false
	}
	if e.pathsSeen <= 3 || e.pathsSeen%e.witnessStride() == 0 {
		e.witnessTaken++
		return true
	}
	return false
}

func (e *Engine) witnessStride() int {
	k := 1 + e.pathsSeen/(2*e.Cfg.Witnesses)
	return k
}

func describePanic(r interface{}) string {
	switch x := r.(type) {
	case goPanic:
		return "go panic: " + x.Msg + " at " + x.Where
	case pathAbort:
		return x.Kind + ": " + x.Reason
	}
	return fmt.Sprintf("%v\n%s", r, debug.Stack())
}

func (e *Engine) newPath(s *Solver, prefix []int) *Path {
	p := &Path{E: e, S: s, prefix: prefix, names: map[string]int{}, funcs: map[string]bool{}, stubs: map[string]bool{},
		notes: map[string]bool{}, covers: map[string]bool{}, obs: map[string]string{}, views: map[string]*Obj{}, viewOf: map[*Obj]PtrV{},
		inOverride: map[*ssa.Function]bool{}, choices: map[string]int{}, ufs: map[string][]ufApp{}, declared: map[string]bool{},
		mutexes: map[*Obj]int{}, ndNames: map[string]int{}, chans: map[int]*chanState{}, divCache: map[string]*Term{}, protoBlobs: map[*Obj]protoBlob{}, bigBlobs: map[*Obj]*Term{}, lockEdges: map[string]bool{}, knownTrue: map[string]bool{}, locks: map[string]int{}, flags: map[string]bool{},
		syncMaps: map[string]*MapV{}, atomVals: map[string]Value{}}
	p.tb = &TB{}
	if s != nil {
		p.tb.defs = func(name string, srt Sort, body string) {
			s.Send(fmt.Sprintf("(define-fun %s () %s %s)", name, srt.SMT(), body))
		}
	}
	p.res = &PathResult{Status: "ok"}
	if e.initGlobals != nil {
		c := newCloner(p)
		p.globals = make(map[*ssa.Global]*Obj, len(e.initGlobals))
		for g, o := range e.initGlobals {
			p.globals[g] = c.obj(o)
		}
		p.nObj = e.initNObj
	}
	return p
}

// RunPath executes the harness along the given decision prefix.
func (e *Engine) RunPath(s *Solver, h *ssa.Function, prefix []int) (res *PathResult, pending [][]int) {
	p := e.newPath(s, prefix)
	if alignOn {
		alignMu.Lock()
		p.expWhere = alignTab[prefixKey(prefix)]
		alignMu.Unlock()
	}
	if s != nil {
		s.Send("(push 1)")
		defer s.Send("(pop 1)")
	}
	res = p.res
	func() {
		defer func() {
			r := recover()
			if r == nil {
				return
			}
			switch x := r.(type) {
			case pathAbort:
				switch x.Kind {
				case "stop":
					// violation already recorded
				case "infeasible":
					res.Status = "infeasible"
					res.Reason = x.Reason
				default:
					res.Status = "inconclusive"
					res.Reason = x.Reason
				}
			case goPanic:
				res.Status = "panic"
				res.Reason = x.Msg + " at " + x.Where
				if e.Cfg.PanicIsViolation {
					v := Violation{Kind: "panic", Msg: x.Msg, Where: x.Where, Decisions: append([]int(nil), p.decisions...), Choices: copyChoices(p.choices), Replayable: true}
					if s != nil {
						if s.Check() == Sat {
							v.Model = p.model()
						} else {
							res.Status = "infeasible"
							return
						}
					} else {
						v.Model = map[string]string{}
					}
					res.Violations = append(res.Violations, v)
				}
			default:
				res.Status = "inconclusive"
				res.Reason = "engine error: " + describePanic(r)
			}
		}()
		p.callSSA(nil, h, nil, nil)
		if e.Cfg.Witnesses > 0 && s != nil && len(res.Violations) == 0 && res.Status == "ok" && e.takeWitnessSlot() {
			// prefer a non-degenerate witness: numeric inputs away from 0 and pairwise different
			s.Send("(push 1)")
			var prev *Term
			for _, nd := range p.nondets {
				for _, t := range nd.Terms {
					if t.c || t.S.K == KBool || t.S.K == KFP {
						continue
					}
					s.Send("(assert (not (= " + t.s + " " + zeroTerm(t.S).s + ")))")
					if prev != nil && prev.S == t.S {
						s.Send("(assert (not (= " + t.s + " " + prev.s + ")))")
					}
					prev = t
				}
			}
			r := s.Check()
			if r != Sat {
				s.Send("(pop 1)")
				r = s.Check()
				s.NSat-- // bookkeeping only
				if r == Sat {
					res.Witness = &Witness{Model: p.model(), Covers: keys(p.covers), Obs: p.resolveObs()}
				}
			} else {
				res.Witness = &Witness{Model: p.model(), Covers: keys(p.covers), Obs: p.resolveObs()}
				s.Send("(pop 1)")
			}
		}
	}()
	res.Decisions = p.decisions
	res.Covers = p.covers
	res.Funcs = p.funcs
	res.Stubs = p.stubs
	res.Notes = p.notes
	res.Events = p.events
	res.Observations = p.obs
	res.Steps = p.steps
	res.Assumes = p.assumes
	res.Recovered = p.recovered
	res.MergeStats = p.mergeStats
	if s != nil {
		if errs := s.TakeErrors(); len(errs) > 0 {
			res.Status = "inconclusive"
			res.Reason = "solver error: " + errs[0]
		}
	}
	return res, p.pending
}

// ---- exploration of all paths of one obligation ----

type ObligationResult struct {
	ID        string
	Harness   string
	Paths     int
	OK, Infeasible, Inconclusive, Panics int
	Violations []Violation
	Covers    map[string]int
	Funcs     map[string]bool
	Stubs     map[string]bool
	Notes     map[string]int
	Events    map[string]int
	Assumes   map[string]bool
	AssertsChecked, AssertsDischarged, AssertsConst int
	Sat, Unsat, Unknown int
	SolverSecs float64
	WallSecs  float64
	Steps     int64
	Forks     int
	InconclusiveReasons map[string]int
	Witnesses []*Witness
	MergeStats [3]int
	ForkSites map[string]int
	Truncated bool
	SamplePaths []string
}

func (e *Engine) Explore(id string, h *ssa.Function) *ObligationResult {
	t0 := time.Now()
	R := &ObligationResult{ID: id, Harness: h.String(), Covers: map[string]int{}, Funcs: map[string]bool{}, Stubs: map[string]bool{},
		Notes: map[string]int{}, Events: map[string]int{}, InconclusiveReasons: map[string]int{}, Assumes: map[string]bool{}}
	var mu sync.Mutex
	cond := sync.NewCond(&mu)
	work := [][]int{nil}
	active := 0
	stop := false
	nw := e.Cfg.Workers
	if nw < 1 {
		nw = 1
	}
	var wg sync.WaitGroup
	if os.Getenv("VERIF_PROGRESS") != "" {
		done := make(chan struct{})
		defer close(done)
		go func() {
			for {
				select {
				case <-done:
					return
				case <-time.After(10 * time.Second):
					mu.Lock()
					fmt.Fprintf(os.Stderr, "[%s] %.0fs paths=%d queue=%d active=%d viol=%d inconcl=%d\n", id, time.Since(t0).Seconds(), R.Paths, len(work), active, len(R.Violations), R.Inconclusive)
					mu.Unlock()
				}
			}
		}()
	}
	for w := 0; w < nw; w++ {
		wg.Add(1)
		go func(w int) {
			defer wg.Done()
			var s *Solver
			defer func() {
				if s != nil {
					mu.Lock()
					R.Sat += s.NSat
					R.Unsat += s.NUnsat
					R.Unknown += s.NUnknown
					R.SolverSecs += s.Secs
					mu.Unlock()
					s.Close()
				}
			}()
			for {
				mu.Lock()
				for len(work) == 0 && active > 0 && !stop {
					cond.Wait()
				}
				if stop || (len(work) == 0 && active == 0) {
					mu.Unlock()
					cond.Broadcast()
					return
				}
				prefix := work[len(work)-1]
				work = work[:len(work)-1]
				active++
				mu.Unlock()
				if s == nil {
					logp := ""
					if e.Cfg.LogDir != "" {
						os.MkdirAll(e.Cfg.LogDir, 0o755)
						logp = filepath.Join(e.Cfg.LogDir, fmt.Sprintf("%s.w%d.smt2", id, w))
					}
					var err error
					s, err = NewSolver(e.Cfg.Solver, e.Cfg.SolverTimeoutMs, logp)
					if err != nil {
						panic(err)
					}
				}
				res, pending := e.RunPath(s, h, prefix)
				mu.Lock()
				active--
				R.Paths++
				switch res.Status {
				case "ok":
					R.OK++
				case "infeasible":
					R.Infeasible++
				case "panic":
					R.Panics++
				default:
					R.Inconclusive++
					R.InconclusiveReasons[res.Reason]++
				}
				for c := range res.Covers {
					R.Covers[c]++
				}
				for f := range res.Funcs {
					R.Funcs[f] = true
				}
				for f := range res.Stubs {
					R.Stubs[f] = true
				}
				for n := range res.Notes {
					R.Notes[n]++
				}
				for _, ev := range res.Events {
					R.Events[ev]++
				}
				for _, a := range res.Assumes {
					R.Assumes[a] = true
				}
				for k, v := range res.ForkSites {
					if R.ForkSites == nil {
						R.ForkSites = map[string]int{}
					}
					R.ForkSites[k] += v
				}
				for k := range R.MergeStats {
					R.MergeStats[k] += res.MergeStats[k]
				}
				R.Violations = append(R.Violations, res.Violations...)
				if res.Witness != nil {
					R.Witnesses = append(R.Witnesses, res.Witness)
				}
				R.AssertsChecked += res.AssertsChecked
				R.AssertsDischarged += res.AssertsDischarged
				R.AssertsConst += res.AssertsConst
				R.Steps += int64(res.Steps)
				R.Forks += res.Forks
				if len(R.SamplePaths) < 5 {
					R.SamplePaths = append(R.SamplePaths, fmt.Sprintf("status=%s decisions=%v covers=%v", res.Status, res.Decisions, keys(res.Covers)))
				}
				if e.Cfg.StopAtFirstViolation {
					for _, v := range res.Violations {
						if e.Cfg.IsKnown == nil || !e.Cfg.IsKnown(v) {
							stop = true
						}
					}
				}
				if R.Paths+len(work)+len(pending) > e.Cfg.MaxPaths {
					R.Truncated = true
					stop = true
				}
				work = append(work, pending...)
				mu.Unlock()
				cond.Broadcast()
			}
		}(w)
	}
	wg.Wait()
	R.WallSecs = time.Since(t0).Seconds()
	return R
}

func keys(m map[string]bool) []string {
	var r []string
	for k := range m {
		r = append(r, k)
	}
	sort.Strings(r)
	return r
}
