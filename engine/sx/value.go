package sx

import (
	"fmt"
	"go/types"

	"golang.org/x/tools/go/ssa"
)

// Value is one of:
//   *Term                scalar (bool, ints, floats; Int sort only inside BigV)
//   *StructV, *ArrayV    immutable aggregates
//   PtrV                 concrete reference or nil
//   SliceV               concrete (backing object, off, len, cap)
//   StrV                 string of concrete length
//   *MapV                map (nil pointer = nil map)
//   IfaceV               (dynamic type, value); T==nil is the nil interface
//   *FuncV               closure / function value (nil pointer = nil func)
//   TupleV               multiple results
//   BigV                 value of struct type math/big.Int (mathematical integer)
//   OpaqueV              engine-created opaque value (errors etc.)
type Value interface{}

type StructV struct{ F []Value }
type ArrayV struct {
	E   []Value
	Mut bool // slice backing store: updated in place, copied on whole-value load
	born int // object counter at creation (Mut arrays only)
}

type Obj struct {
	V     Value
	ID    int
	Name  string
	Typ   types.Type // element type held
	owner *Path
}

type PtrV struct {
	O    *Obj
	Path []int
	Nil  *Term // when non-nil: the pointer is nil iff this condition holds (symbolic nil-ness)
}

// IsNil is only meaningful for resolved pointers (Nil == nil); see (*Path).rp.
func (p PtrV) IsNil() bool {
	if p.Nil != nil && p.O != nil {
		panic("engine: IsNil on an unresolved maybe-nil pointer")
	}
	return p.O == nil
}

type SliceV struct {
	O             *Obj // holds *ArrayV
	Off, Len, Cap int
}

func (s SliceV) IsNil() bool { return s.O == nil }

type StrV struct {
	B []*Term // BV8 each
}

func StrConst(s string) StrV {
	b := make([]*Term, len(s))
	for i := 0; i < len(s); i++ {
		b[i] = byteConst(s[i])
	}
	return StrV{b}
}

var byteConsts [256]*Term

func init() {
	for i := range byteConsts {
		byteConsts[i] = BVConst(uint64(i), 8)
	}
}
func byteConst(b byte) *Term { return byteConsts[b] }

func (s StrV) Concrete() (string, bool) {
	b := make([]byte, len(s.B))
	for i, t := range s.B {
		if !t.c {
			return "", false
		}
		b[i] = byte(t.u)
	}
	return string(b), true
}

type MapEntry struct {
	K, V Value
	Cond *Term // when non-nil: the entry exists iff this condition holds (result of merging two branches)
}
type MapV struct {
	E  []MapEntry
	ID int
}

type IfaceV struct {
	T types.Type
	V Value
}

type FuncV struct {
	Fn      *ssa.Function
	Env     []Value
	Builtin string // engine builtin closure
	Data    []Value
	Nil     *Term // when non-nil: the function value is nil iff this condition holds
}

type TupleV []Value

type BigV struct{ T *Term } // Int sort

// FloatBigV is a value of type math/big.Float: modelled as an exact rational is out of reach;
// we keep an uninterpreted Real-free abstraction: an Int-sorted "scaled" term is not sound, so
// big.Float values are opaque UF results (see intrinsics).
type OpaqueV struct {
	Kind string
	ID   int
	Msg  StrV
	Data []Value
}

type ChanV struct{ ID int }

// ---- type helpers ----

func isNamed(t types.Type, pkg, name string) bool {
	n, ok := t.(*types.Named)
	if !ok {
		return false
	}
	o := n.Obj()
	return o.Name() == name && o.Pkg() != nil && o.Pkg().Path() == pkg
}

func isBigInt(t types.Type) bool { return isNamed(t, "math/big", "Int") }

func basicSort(b *types.Basic) (Sort, bool, bool) {
	// returns sort, signed, ok
	switch b.Kind() {
	case types.Bool, types.UntypedBool:
		return SBool, false, true
	case types.Int, types.Int64, types.UntypedInt:
		return BV(64), true, true
	case types.Int8:
		return BV(8), true, true
	case types.Int16:
		return BV(16), true, true
	case types.Int32, types.UntypedRune:
		return BV(32), true, true
	case types.Uint, types.Uint64, types.Uintptr:
		return BV(64), false, true
	case types.Uint8:
		return BV(8), false, true
	case types.Uint16:
		return BV(16), false, true
	case types.Uint32:
		return BV(32), false, true
	case types.Float32:
		return FP(32), true, true
	case types.Float64, types.UntypedFloat:
		return FP(64), true, true
	}
	return Sort{}, false, false
}

func isSigned(t types.Type) bool {
	if b, ok := t.Underlying().(*types.Basic); ok {
		_, s, _ := basicSort(b)
		return s
	}
	return false
}

func zeroTerm(s Sort) *Term {
	switch s.K {
	case KBool:
		return tFalse
	case KBV:
		return BVConst(0, s.W)
	case KInt:
		return IntConst64(0)
	case KFP:
		return FPConst(0, s.W)
	}
	panic("zeroTerm")
}

// Zero returns the zero value of a Go type.
func Zero(t types.Type) Value {
	if isBigInt(t) {
		return BigV{IntConst64(0)}
	}
	switch u := t.Underlying().(type) {
	case *types.Basic:
		if u.Kind() == types.String || u.Kind() == types.UntypedString {
			return StrV{}
		}
		if u.Kind() == types.UnsafePointer {
			return PtrV{}
		}
		if u.Kind() == types.UntypedNil {
			return nil
		}
		s, _, ok := basicSort(u)
		if !ok {
			panic(fmt.Sprintf("zero: unsupported basic %v", u))
		}
		return zeroTerm(s)
	case *types.Struct:
		f := make([]Value, u.NumFields())
		for i := range f {
			f[i] = Zero(u.Field(i).Type())
		}
		return &StructV{f}
	case *types.Array:
		n := int(u.Len())
		e := make([]Value, n)
		if n > 0 {
			z := Zero(u.Elem())
			for i := range e {
				e[i] = z // immutable, can share
			}
		}
		return &ArrayV{E: e}
	case *types.Pointer:
		return PtrV{}
	case *types.Slice:
		return SliceV{}
	case *types.Map:
		return (*MapV)(nil)
	case *types.Interface:
		return IfaceV{}
	case *types.Signature:
		return (*FuncV)(nil)
	case *types.Chan:
		return ChanV{}
	case *types.Tuple:
		tv := make(TupleV, u.Len())
		for i := range tv {
			tv[i] = Zero(u.At(i).Type())
		}
		return tv
	}
	panic(fmt.Sprintf("zero: unsupported type %v", t))
}

// getPath reads the sub-value at path.
func getPath(v Value, path []int) Value {
	for _, i := range path {
		switch a := v.(type) {
		case *StructV:
			v = a.F[i]
		case *ArrayV:
			v = a.E[i]
		default:
			panic(fmt.Sprintf("getPath: %T at %d", v, i))
		}
	}
	return v
}

// setPath returns v with the sub-value at path replaced (path copying).
func setPath(v Value, path []int, nv Value) Value {
	if len(path) == 0 {
		return nv
	}
	i := path[0]
	switch a := v.(type) {
	case *StructV:
		f := make([]Value, len(a.F))
		copy(f, a.F)
		f[i] = setPath(a.F[i], path[1:], nv)
		return &StructV{f}
	case *ArrayV:
		e := make([]Value, len(a.E))
		copy(e, a.E)
		e[i] = setPath(a.E[i], path[1:], nv)
		return &ArrayV{E: e}
	}
	panic(fmt.Sprintf("setPath: %T", v))
}

func (p PtrV) Load() Value {
	v := getPath(p.O.V, p.Path)
	if a, ok := v.(*ArrayV); ok && a.Mut {
		e := make([]Value, len(a.E))
		copy(e, a.E)
		return &ArrayV{E: e}
	}
	return v
}
func (p PtrV) Store(v Value) {
	if a, ok := p.O.V.(*ArrayV); ok && a.Mut && len(p.Path) >= 1 {
		i := p.Path[0]
		if ow := p.O.owner; ow != nil && len(ow.journals) > 0 {
			ow.journalElem(a, i)
		}
		a.E[i] = setPath(a.E[i], p.Path[1:], v)
		return
	}
	if ow := p.O.owner; ow != nil && len(ow.journals) > 0 {
		ow.journalObj(p.O)
	}
	p.O.V = setPath(p.O.V, p.Path, v)
}
func (p PtrV) Sub(i int) PtrV {
	np := make([]int, len(p.Path)+1)
	copy(np, p.Path)
	np[len(p.Path)] = i
	return PtrV{O: p.O, Path: np}
}

func ptrEq(a, b PtrV) bool {
	if a.O != b.O || len(a.Path) != len(b.Path) {
		return false
	}
	for i := range a.Path {
		if a.Path[i] != b.Path[i] {
			return false
		}
	}
	return true
}

// ---- deep clone of a heap (used to snapshot the post-init state) ----

type cloner struct {
	objs  map[*Obj]*Obj
	maps  map[*MapV]*MapV
	owner *Path
}

func newCloner(owner *Path) *cloner { return &cloner{map[*Obj]*Obj{}, map[*MapV]*MapV{}, owner} }

func (c *cloner) obj(o *Obj) *Obj {
	if o == nil {
		return nil
	}
	if n, ok := c.objs[o]; ok {
		return n
	}
	n := &Obj{ID: o.ID, Name: o.Name, Typ: o.Typ, owner: c.owner}
	c.objs[o] = n
	n.V = c.val(o.V)
	return n
}

func (c *cloner) val(v Value) Value {
	switch a := v.(type) {
	case nil:
		return nil
	case *Term, StrV, BigV, ChanV:
		return v
	case *StructV:
		if a == nil {
			return a
		}
		f := make([]Value, len(a.F))
		changed := false
		for i, x := range a.F {
			f[i] = c.val(x)
			if !sameRef(f[i], x) {
				changed = true
			}
		}
		if !changed {
			return a
		}
		return &StructV{f}
	case *ArrayV:
		e := make([]Value, len(a.E))
		changed := false
		for i, x := range a.E {
			e[i] = c.val(x)
			if !sameRef(e[i], x) {
				changed = true
			}
		}
		if !changed && !a.Mut {
			return a
		}
		return &ArrayV{E: e, Mut: a.Mut}
	case PtrV:
		if a.O == nil {
			return a
		}
		return PtrV{O: c.obj(a.O), Path: a.Path, Nil: a.Nil}
	case SliceV:
		if a.O == nil {
			return a
		}
		return SliceV{c.obj(a.O), a.Off, a.Len, a.Cap}
	case *MapV:
		if a == nil {
			return a
		}
		if n, ok := c.maps[a]; ok {
			return n
		}
		n := &MapV{ID: a.ID, E: make([]MapEntry, len(a.E))}
		c.maps[a] = n
		for i, e := range a.E {
			n.E[i] = MapEntry{K: c.val(e.K), V: c.val(e.V), Cond: e.Cond}
		}
		return n
	case IfaceV:
		return IfaceV{a.T, c.val(a.V)}
	case *FuncV:
		if a == nil {
			return a
		}
		n := &FuncV{Fn: a.Fn, Builtin: a.Builtin, Nil: a.Nil}
		for _, x := range a.Env {
			n.Env = append(n.Env, c.val(x))
		}
		for _, x := range a.Data {
			n.Data = append(n.Data, c.val(x))
		}
		return n
	case TupleV:
		n := make(TupleV, len(a))
		for i, x := range a {
			n[i] = c.val(x)
		}
		return n
	case OpaqueV:
		n := a
		n.Data = nil
		for _, x := range a.Data {
			n.Data = append(n.Data, c.val(x))
		}
		return n
	case *OpaqueV:
		return a
	}
	panic(fmt.Sprintf("clone: %T", v))
}

func sameRef(a, b Value) bool {
	switch x := a.(type) {
	case *Term:
		y, ok := b.(*Term)
		return ok && x == y
	case *StructV:
		y, ok := b.(*StructV)
		return ok && x == y
	case *ArrayV:
		y, ok := b.(*ArrayV)
		return ok && x == y
	case StrV, BigV, ChanV:
		return true
	case nil:
		return b == nil
	case PtrV:
		return x.O == nil
	case SliceV:
		return x.O == nil
	case *MapV:
		return x == nil
	case *FuncV:
		return x == nil
	case IfaceV:
		y, ok := b.(IfaceV)
		return ok && x.T == nil && y.T == nil
	}
	return false
}
