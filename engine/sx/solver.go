package sx

import (
	"sync"
	"sync/atomic"
	"bufio"
	"fmt"
	"io"
	"os"
	"os/exec"
	"strings"
	"time"
)

// Solver is one long-lived SMT solver process spoken to over stdin/stdout.
type Solver struct {
	Name   string
	cmd    *exec.Cmd
	in     io.WriteCloser
	out    *bufio.Reader
	log    *os.File
	Errors []string
	// stats
	NSat, NUnsat, NUnknown int
	Secs                   float64
	TimeoutMs              int
}

func solverArgs(name string, timeoutMs int) (string, []string) {
	switch name {
	case "z3":
		return "z3", []string{"-in", fmt.Sprintf("-t:%d", timeoutMs)}
	case "z3-new":
		return "z3-new", []string{"-in", fmt.Sprintf("-t:%d", timeoutMs)}
	case "cvc5":
		return "cvc5", []string{"--incremental", "--lang=smt2", "--produce-models", fmt.Sprintf("--tlimit-per=%d", timeoutMs), "--fp-exp"}
	}
	panic("unknown solver " + name)
}

func NewSolver(name string, timeoutMs int, logPath string) (*Solver, error) {
	bin, args := solverArgs(name, timeoutMs)
	cmd := exec.Command(bin, args...)
	in, err := cmd.StdinPipe()
	if err != nil {
		return nil, err
	}
	out, err := cmd.StdoutPipe()
	if err != nil {
		return nil, err
	}
	cmd.Stderr = cmd.Stdout
	if err := cmd.Start(); err != nil {
		return nil, err
	}
	s := &Solver{Name: name, cmd: cmd, in: in, out: bufio.NewReaderSize(out, 1<<16), TimeoutMs: timeoutMs}
	if logPath != "" {
		s.log, _ = os.Create(logPath)
	}
	if name != "cvc5" {
		s.Send("(set-option :produce-models true)")
	}
	s.Send("(set-logic ALL)")
	return s, nil
}

func (s *Solver) Send(line string) {
	if s.log != nil {
		s.log.WriteString(line)
		s.log.WriteString("\n")
	}
	io.WriteString(s.in, line)
	io.WriteString(s.in, "\n")
}

func (s *Solver) Close() {
	s.in.Close()
	done := make(chan struct{})
	go func() { s.cmd.Wait(); close(done) }()
	select {
	case <-done:
	case <-time.After(2 * time.Second):
		s.cmd.Process.Kill()
	}
	if s.log != nil {
		s.log.Close()
	}
}

func (s *Solver) readLine() string {
	line, err := s.out.ReadString('\n')
	if err != nil {
		return "(error \"solver died: " + err.Error() + "\")"
	}
	return strings.TrimSpace(line)
}

// readSexp reads one balanced s-expression (possibly multi-line).
func (s *Solver) readSexp() string {
	var sb strings.Builder
	depth := 0
	started := false
	inStr := false
	for {
		line, err := s.out.ReadString('\n')
		if err != nil {
			return sb.String()
		}
		for i := 0; i < len(line); i++ {
			ch := line[i]
			if ch == '"' {
				inStr = !inStr
			}
			if inStr {
				continue
			}
			if ch == '(' {
				depth++
				started = true
			} else if ch == ')' {
				depth--
			}
		}
		sb.WriteString(line)
		if started && depth <= 0 {
			return sb.String()
		}
		if !started && strings.TrimSpace(line) != "" {
			return sb.String()
		}
	}
}

type SatResult int

const (
	Sat SatResult = iota
	Unsat
	Unknown
)

func (r SatResult) String() string { return [...]string{"sat", "unsat", "unknown"}[r] }

// Check runs (check-sat) and classifies the answer. Any (error line => Unknown.
func (s *Solver) Check() SatResult {
	t0 := time.Now()
	s.Send("(check-sat)")
	var r SatResult
	for {
		l := s.readLine()
		if l == "" {
			continue
		}
		switch {
		case l == "sat":
			r = Sat
			s.NSat++
		case l == "unsat":
			r = Unsat
			s.NUnsat++
		case l == "unknown" || l == "timeout":
			r = Unknown
			s.NUnknown++
		case strings.HasPrefix(l, "(error"):
			s.Errors = append(s.Errors, l)
			// an error precedes the actual answer for check-sat? z3 prints error for the
			// offending command and still answers check-sat; mark and keep reading only if
			// the error is about a previous command. We treat it as inconclusive.
			if strings.Contains(l, "solver died") {
				s.NUnknown++
				s.Secs += time.Since(t0).Seconds()
				return Unknown
			}
			continue
		default:
			// unexpected chatter
			s.Errors = append(s.Errors, "unexpected: "+l)
			continue
		}
		break
	}
	s.Secs += time.Since(t0).Seconds()
	return r
}

// CheckAssuming: push, assert, check, pop.
var QueryKinds sync.Map

func countKind(k string) {
	v, _ := QueryKinds.LoadOrStore(k, new(int64))
	atomic.AddInt64(v.(*int64), 1)
}

func (s *Solver) CheckAssumingK(kind, t string) SatResult {
	countKind(kind)
	return s.CheckAssuming(t)
}

func (s *Solver) CheckAssuming(t string) SatResult {
	s.Send("(push 1)")
	s.Send("(assert " + t + ")")
	r := s.Check()
	s.Send("(pop 1)")
	return r
}

// GetValues evaluates terms in the current model (must follow a sat answer, before pop).
func (s *Solver) GetValues(terms []string) map[string]string {
	res := map[string]string{}
	for _, t := range terms {
		s.Send("(get-value (" + t + "))")
		r := s.readSexp()
		r = strings.TrimSpace(r)
		if strings.HasPrefix(r, "(error") {
			s.Errors = append(s.Errors, r)
			continue
		}
		// ((t v))
		r = strings.TrimPrefix(r, "((")
		r = strings.TrimSuffix(r, "))")
		r = strings.TrimSpace(strings.TrimPrefix(r, t))
		res[t] = r
	}
	return res
}

// HadErrors reports whether any (error line was seen since the last call, and clears.
func (s *Solver) TakeErrors() []string {
	e := s.Errors
	s.Errors = nil
	return e
}
