package sx

import (
	"fmt"
	"go/ast"
	"go/token"
	"os"
	"path/filepath"
	"sort"
	"strings"

	"golang.org/x/tools/go/packages"
	"golang.org/x/tools/go/ssa"
	"golang.org/x/tools/go/ssa/ssautil"
)

const RepoMod = "github.com/idena-network/idena-go"

// Program is the loaded SSA program plus harness meta data.
type Program struct {
	Prog      *ssa.Program
	Pkgs      map[string]*ssa.Package // by import path
	Fset      *token.FileSet
	Overrides map[string]map[string]string // set name -> full callee name -> full harness func name
	funcIndex map[string]*ssa.Function
	LoadSec   float64
	Roots     []string
	HarnessFiles []string
	BadDirectives []string
	CallSites []callSite
}

// StdRoots are standard / third party packages whose bodies are executed from source.
var StdRoots = []string{
	"sort", "bytes", "strings", "time", "encoding/binary", "container/list", "math", "math/bits",
	"errors", "unicode/utf8", "strconv", "slices", "cmp", "encoding/hex", "container/heap",
	"github.com/deckarep/golang-set",
	"github.com/shopspring/decimal",
	"github.com/pkg/errors",
}

func modCache() string {
	if v := os.Getenv("GOMODCACHE"); v != "" {
		return v
	}
	return "/root/go/pkg/mod"
}

// BuildOverlay returns the overlay map: the two module-cache fixes plus every harness
// file under harnessDir (harnessDir/<pkg rel path>/zz_verif_*.go -> repo/<pkg>/same name).
// When native is true, files ending in _test.go are included as well.
func BuildOverlay(repo, harnessDir string, withTests bool) (map[string][]byte, []string, error) {
	ov := map[string][]byte{}
	mc := modCache()
	ov[filepath.Join(mc, "github.com/lucas-clemente/quic-go@v0.28.0/internal/qtls/go120.go")] = []byte("package qtls\n")
	up := filepath.Join(mc, "github.com/marten-seemann/qtls-go1-19@v0.1.0-beta.1/unsafe.go")
	src, err := os.ReadFile(up)
	if err != nil {
		return nil, nil, err
	}
	ov[up] = []byte(strings.Replace(string(src), "func init() {", "func verifDisabledInit() {", 1))
	var files []string
	err = filepath.Walk(harnessDir, func(p string, info os.FileInfo, err error) error {
		if err != nil {
			return err
		}
		if info.IsDir() {
			if strings.HasPrefix(info.Name(), "_") {
				return filepath.SkipDir
			}
			return nil
		}
		if !strings.HasSuffix(p, ".go") {
			return nil
		}
		if strings.HasSuffix(p, "_test.go") && !withTests {
			return nil
		}
		rel, _ := filepath.Rel(harnessDir, p)
		b, err := os.ReadFile(p)
		if err != nil {
			return err
		}
		ov[filepath.Join(repo, rel)] = b
		files = append(files, rel)
		return nil
	})
	sort.Strings(files)
	return ov, files, err
}

// Load type-checks the root packages from /repo's current working tree (plus overlays)
// and builds SSA for them.
func Load(repo string, harnessDirs []string, repoPkgs []string) (*Program, error) {
	ov, hfiles, err := buildOverlayMulti(repo, harnessDirs, false)
	if err != nil {
		return nil, err
	}
	env := append(os.Environ(), "GOFLAGS=-mod=mod", "GOPROXY=off", "GOSUMDB=off", "GOTOOLCHAIN=local", "CGO_ENABLED=1")
	var seeds []string
	for _, p := range repoPkgs {
		seeds = append(seeds, RepoMod+"/"+p)
	}
	// pass 1: import closure restricted to the repository's own packages (bodies needed)
	pre, err := packages.Load(&packages.Config{Mode: packages.NeedName | packages.NeedImports | packages.NeedDeps, Dir: repo, Overlay: ov, Env: env}, seeds...)
	if err != nil {
		return nil, err
	}
	closure := map[string]bool{}
	var walk func(p *packages.Package)
	walk = func(p *packages.Package) {
		if closure[p.PkgPath] || !strings.HasPrefix(p.PkgPath, RepoMod) {
			return
		}
		closure[p.PkgPath] = true
		for _, ip := range p.Imports {
			walk(ip)
		}
	}
	for _, p := range pre {
		walk(p)
	}
	var patterns []string
	for p := range closure {
		patterns = append(patterns, p)
	}
	sort.Strings(patterns)
	patterns = append(patterns, StdRoots...)
	cfg := &packages.Config{Mode: packages.LoadSyntax, Dir: repo, Overlay: ov, Env: env}
	initial, err := packages.Load(cfg, patterns...)
	if err != nil {
		return nil, err
	}
	var errs []string
	for _, p := range initial {
		for _, e := range p.Errors {
			errs = append(errs, p.PkgPath+": "+e.Error())
		}
		if p.IllTyped && len(p.Errors) == 0 {
			errs = append(errs, p.PkgPath+": ill typed (dependency error)")
		}
	}
	if len(errs) > 0 {
		if len(errs) > 20 {
			errs = errs[:20]
		}
		return nil, fmt.Errorf("load errors:\n%s", strings.Join(errs, "\n"))
	}
	prog, pkgs := ssautil.Packages(initial, ssa.InstantiateGenerics)
	P := &Program{Prog: prog, Pkgs: map[string]*ssa.Package{}, Overrides: map[string]map[string]string{}, funcIndex: map[string]*ssa.Function{}, HarnessFiles: hfiles}
	for i, p := range pkgs {
		if p == nil {
			return nil, fmt.Errorf("no ssa package for %s", initial[i].PkgPath)
		}
		p.Build()
		P.Pkgs[p.Pkg.Path()] = p
		P.Roots = append(P.Roots, p.Pkg.Path())
	}
	P.Fset = prog.Fset
	// override directives in harness files
	for _, ip := range initial {
		for _, f := range ip.Syntax {
			fn := ip.Fset.Position(f.Pos()).Filename
			if !strings.HasPrefix(filepath.Base(fn), "zz_verif") {
				continue
			}
			for _, cg := range f.Comments {
				for _, c := range cg.List {
					P.parseDirective(c, ip.PkgPath)
				}
			}
		}
	}
	return P, nil
}

func (P *Program) parseDirective(c *ast.Comment, pkgPath string) {
	t := strings.TrimSpace(strings.TrimPrefix(c.Text, "//"))
	if strings.HasPrefix(t, "verif:callsite ") {
		// verif:callsite <set> <repo-relative file> <pkg.Func as written at the call sites> <replacement>
		f := strings.Fields(t)
		if len(f) != 5 {
			P.BadDirectives = append(P.BadDirectives, c.Text)
			return
		}
		repl := f[4]
		if !strings.Contains(repl, ".") {
			repl = pkgPath + "." + repl
		}
		P.CallSites = append(P.CallSites, callSite{Set: f[1], File: f[2], Func: f[3], Repl: repl})
		return
	}
	if !strings.HasPrefix(t, "verif:override ") {
		return
	}
	// verif:override <set> <target> <replacement>
	f := strings.Fields(t)
	if len(f) != 4 {
		P.BadDirectives = append(P.BadDirectives, c.Text)
		return
	}
	set, target, repl := f[1], f[2], f[3]
	if !strings.Contains(repl, ".") {
		repl = pkgPath + "." + repl
	}
	// shorthand: repo-relative targets
	target = strings.ReplaceAll(target, "idena-go/", RepoMod+"/")
	if P.Overrides[set] == nil {
		P.Overrides[set] = map[string]string{}
	}
	P.Overrides[set][target] = repl
}

// FuncByName finds a function by its ssa String() name, e.g.
// "github.com/x/y.F" or "(*github.com/x/y.T).M".
func (P *Program) FuncByName(name string) *ssa.Function {
	if f, ok := P.funcIndex[name]; ok {
		return f
	}
	if len(P.funcIndex) == 0 {
		for fn := range ssautil.AllFunctions(P.Prog) {
			P.funcIndex[fn.String()] = fn
		}
	}
	// members (not reachable ones may be missing from AllFunctions)
	for _, p := range P.Pkgs {
		for _, m := range p.Members {
			if fn, ok := m.(*ssa.Function); ok {
				P.funcIndex[fn.String()] = fn
			}
		}
	}
	return P.funcIndex[name]
}
